"""Reference MessagePack codec written from the specification (spec.md, 2017 revision).

Shares no code with supp/umsgpack.py.  Used by C14 (and by C15 to predict wire values).

Data model used on the Python side:
  nil -> None, bool -> bool, int -> int, float -> float, str -> str, bin -> bytes,
  array -> list, map -> list of (key, value) pairs in stream order (so that duplicate or
  unhashable keys remain representable), ext -> RExt(type in -128..127, data)
`to_python` turns that into dict-based values where possible.
"""
import struct


class RExt(object):
    __slots__ = ('type', 'data')

    def __init__(self, type, data):
        self.type = type
        self.data = data

    def __repr__(self):
        return 'RExt(%d, %r)' % (self.type, self.data)

    def __eq__(self, other):
        return isinstance(other, RExt) and (self.type, self.data) == (other.type, other.data)

    def __ne__(self, other):
        return not self.__eq__(other)

    def __hash__(self):
        return hash(('ext', self.type, self.data))


class RMap(object):
    __slots__ = ('pairs',)

    def __init__(self, pairs):
        self.pairs = pairs

    def __repr__(self):
        return 'RMap(%r)' % (self.pairs,)


class RefError(Exception):
    kind = 'error'


class RefInsufficient(RefError):
    kind = 'insufficient'


class RefReserved(RefError):
    kind = 'reserved'


class RefInvalidString(RefError):
    kind = 'invalid-string'


# ---------------------------------------------------------------------------
# decoder

def _take(buf, pos, n):
    if pos + n > len(buf):
        raise RefInsufficient(pos)
    return buf[pos:pos + n], pos + n


def _uint(buf, pos, n):
    raw, pos = _take(buf, pos, n)
    return int.from_bytes(raw, 'big', signed=False), pos


def _sint(buf, pos, n):
    raw, pos = _take(buf, pos, n)
    return int.from_bytes(raw, 'big', signed=True), pos


def decode_at(buf, pos=0):
    """Decode one object starting at pos; returns (value, next_pos)."""
    head, pos = _take(buf, pos, 1)
    b = head[0]
    if b <= 0x7f:
        return b, pos
    if 0x80 <= b <= 0x8f:
        return _map(buf, pos, b & 0x0f)
    if 0x90 <= b <= 0x9f:
        return _array(buf, pos, b & 0x0f)
    if 0xa0 <= b <= 0xbf:
        return _str(buf, pos, b & 0x1f)
    if b == 0xc0:
        return None, pos
    if b == 0xc1:
        raise RefReserved(pos - 1)
    if b == 0xc2:
        return False, pos
    if b == 0xc3:
        return True, pos
    if b in (0xc4, 0xc5, 0xc6):
        n, pos = _uint(buf, pos, 1 << (b - 0xc4))
        raw, pos = _take(buf, pos, n)
        return bytes(raw), pos
    if b in (0xc7, 0xc8, 0xc9):
        n, pos = _uint(buf, pos, 1 << (b - 0xc7))
        t, pos = _sint(buf, pos, 1)
        raw, pos = _take(buf, pos, n)
        return RExt(t, bytes(raw)), pos
    if b == 0xca:
        raw, pos = _take(buf, pos, 4)
        return struct.unpack('>f', raw)[0], pos
    if b == 0xcb:
        raw, pos = _take(buf, pos, 8)
        return struct.unpack('>d', raw)[0], pos
    if 0xcc <= b <= 0xcf:
        return _uint(buf, pos, 1 << (b - 0xcc))
    if 0xd0 <= b <= 0xd3:
        return _sint(buf, pos, 1 << (b - 0xd0))
    if 0xd4 <= b <= 0xd8:
        t, pos = _sint(buf, pos, 1)
        raw, pos = _take(buf, pos, 1 << (b - 0xd4))
        return RExt(t, bytes(raw)), pos
    if b in (0xd9, 0xda, 0xdb):
        n, pos = _uint(buf, pos, 1 << (b - 0xd9))
        return _str(buf, pos, n)
    if b in (0xdc, 0xdd):
        n, pos = _uint(buf, pos, 2 << (b - 0xdc))
        return _array(buf, pos, n)
    if b in (0xde, 0xdf):
        n, pos = _uint(buf, pos, 2 << (b - 0xde))
        return _map(buf, pos, n)
    # 0xe0..0xff
    return b - 0x100, pos


def _str(buf, pos, n):
    raw, pos = _take(buf, pos, n)
    try:
        return bytes(raw).decode('utf-8'), pos
    except UnicodeDecodeError:
        raise RefInvalidString(pos - n)


def _array(buf, pos, n):
    out = []
    for _ in range(n):
        if pos >= len(buf):
            raise RefInsufficient(pos)
        v, pos = decode_at(buf, pos)
        out.append(v)
    return out, pos


def _map(buf, pos, n):
    pairs = []
    for _ in range(n):
        if pos >= len(buf):
            raise RefInsufficient(pos)
        k, pos = decode_at(buf, pos)
        v, pos = decode_at(buf, pos)
        pairs.append((k, v))
    return RMap(pairs), pos


def decode(buf):
    v, pos = decode_at(buf, 0)
    return v, pos


# ---------------------------------------------------------------------------
# canonical form: type-strict, order-insensitive for maps, floats by bit pattern

def canon(v):
    """Canonical hashable form of a value from either codec (dict- or RMap-based)."""
    if v is None:
        return ('nil',)
    if isinstance(v, bool):
        return ('bool', v)
    if isinstance(v, int):
        return ('int', v)
    if isinstance(v, float):
        return ('float', struct.pack('>d', v))
    if isinstance(v, str):
        return ('str', v)
    if isinstance(v, (bytes, bytearray)):
        return ('bin', bytes(v))
    if isinstance(v, (list, tuple)):
        return ('arr', tuple(canon(i) for i in v))
    if isinstance(v, dict):
        return ('map', tuple(sorted(((canon(k), canon(x)) for k, x in v.items()), key=repr)))
    if isinstance(v, RMap):
        return ('map', tuple(sorted(((canon(k), canon(x)) for k, x in v.pairs), key=repr)))
    t = getattr(v, 'type', None)
    d = getattr(v, 'data', None)
    if isinstance(t, int) and isinstance(d, (bytes, bytearray)):
        return ('ext', t if t < 128 else t - 256, bytes(d))
    raise TypeError('not a msgpack value: %r' % (type(v),))


def key_problem(v):
    """True if a decoded value contains a map whose keys a dict cannot hold faithfully
    (unhashable key such as a map, or two keys that collide as Python dict keys)."""
    if isinstance(v, list):
        return any(key_problem(i) for i in v)
    if isinstance(v, RMap):
        seen = set()
        for k, x in v.pairs:
            if key_problem(k) or key_problem(x) or _contains_map(k):
                return True
            try:
                hk = _hashable(k)
            except TypeError:
                return True
            if hk in seen:
                return True
            seen.add(hk)
    return False


def _contains_map(k):
    if isinstance(k, RMap):
        return True
    if isinstance(k, list):
        return any(_contains_map(i) for i in k)
    return False


def _hashable(k):
    if isinstance(k, list):
        return tuple(_hashable(i) for i in k)
    if isinstance(k, RExt):
        return ('ext', k.type, bytes(k.data))        # an ext value is a value like any other: it can be a map key
    return k


# ---------------------------------------------------------------------------
# encoder: every legal format for a value; `choose(n)` picks among n options

def _int_formats(n):
    out = []
    if 0 <= n <= 0x7f:
        out.append(bytes([n]))
    if -32 <= n < 0:
        out.append(bytes([n + 0x100]))
    for code, size in ((0xcc, 1), (0xcd, 2), (0xce, 4), (0xcf, 8)):
        if 0 <= n < (1 << (8 * size)):
            out.append(bytes([code]) + n.to_bytes(size, 'big'))
    for code, size in ((0xd0, 1), (0xd1, 2), (0xd2, 4), (0xd3, 8)):
        if -(1 << (8 * size - 1)) <= n < (1 << (8 * size - 1)):
            out.append(bytes([code]) + n.to_bytes(size, 'big', signed=True))
    return out


def _len_headers(n, fix, codes):
    """All headers able to carry length n. fix = (base, max) or None; codes = [(code, nbytes)]."""
    out = []
    if fix and n <= fix[1]:
        out.append(bytes([fix[0] | n]))
    for code, size in codes:
        if n < (1 << (8 * size)):
            out.append(bytes([code]) + n.to_bytes(size, 'big'))
    return out


def encode(v, choose=None, minimal=False):
    """Encode v. With minimal=True always the shortest format (what a conforming writer
    emits); otherwise choose(n) -> index selects among the n legal formats."""
    if choose is None:
        minimal = True

    def pick(options):
        if minimal or len(options) == 1:
            return min(options, key=len)
        return options[choose(len(options)) % len(options)]

    if v is None:
        return b'\xc0'
    if v is True:
        return b'\xc3'
    if v is False:
        return b'\xc2'
    if isinstance(v, int):
        opts = _int_formats(v)
        if not opts:
            raise OverflowError(v)
        return pick(opts)
    if isinstance(v, float):
        opts = [b'\xcb' + struct.pack('>d', v)]
        if not minimal:
            try:
                f32 = struct.pack('>f', v)
                if struct.pack('>d', struct.unpack('>f', f32)[0]) == struct.pack('>d', v):
                    opts.append(b'\xca' + f32)
            except (OverflowError, struct.error):
                pass
        if minimal:
            return opts[0]
        return pick(opts)
    if isinstance(v, str):
        raw = v.encode('utf-8')
        return pick(_len_headers(len(raw), (0xa0, 31), [(0xd9, 1), (0xda, 2), (0xdb, 4)])) + raw
    if isinstance(v, (bytes, bytearray)):
        return pick(_len_headers(len(v), None, [(0xc4, 1), (0xc5, 2), (0xc6, 4)])) + bytes(v)
    if isinstance(v, (list, tuple)):
        head = pick(_len_headers(len(v), (0x90, 15), [(0xdc, 2), (0xdd, 4)]))
        return head + b''.join(encode(i, choose, minimal) for i in v)
    if isinstance(v, dict):
        head = pick(_len_headers(len(v), (0x80, 15), [(0xde, 2), (0xdf, 4)]))
        return head + b''.join(encode(k, choose, minimal) + encode(x, choose, minimal) for k, x in v.items())
    t = getattr(v, 'type', None)
    d = getattr(v, 'data', None)
    if isinstance(t, int) and isinstance(d, (bytes, bytearray)):
        tb = (t & 0xff).to_bytes(1, 'big')
        opts = []
        fix = {1: 0xd4, 2: 0xd5, 4: 0xd6, 8: 0xd7, 16: 0xd8}.get(len(d))
        if fix:
            opts.append(bytes([fix]) + tb + bytes(d))
        for code, size in ((0xc7, 1), (0xc8, 2), (0xc9, 4)):
            if len(d) < (1 << (8 * size)):
                opts.append(bytes([code]) + len(d).to_bytes(size, 'big') + tb + bytes(d))
        return pick(opts)
    raise TypeError('cannot encode %r' % (type(v),))


def selftest():
    """Spec examples and internal round trips; raises AssertionError on a broken reference."""
    vec = [
        (None, b'\xc0'), (True, b'\xc3'), (False, b'\xc2'), (0, b'\x00'), (127, b'\x7f'),
        (128, b'\xcc\x80'), (255, b'\xcc\xff'), (256, b'\xcd\x01\x00'), (65535, b'\xcd\xff\xff'),
        (65536, b'\xce\x00\x01\x00\x00'), (2 ** 32 - 1, b'\xce\xff\xff\xff\xff'),
        (2 ** 32, b'\xcf\x00\x00\x00\x01\x00\x00\x00\x00'), (2 ** 64 - 1, b'\xcf' + b'\xff' * 8),
        (-1, b'\xff'), (-32, b'\xe0'), (-33, b'\xd0\xdf'), (-128, b'\xd0\x80'), (-129, b'\xd1\xff\x7f'),
        (-32768, b'\xd1\x80\x00'), (-32769, b'\xd2\xff\xff\x7f\xff'), (-2 ** 31, b'\xd2\x80\x00\x00\x00'),
        (-2 ** 31 - 1, b'\xd3\xff\xff\xff\xff\x7f\xff\xff\xff'), (-2 ** 63, b'\xd3\x80' + b'\x00' * 7),
        (1.0, b'\xcb\x3f\xf0' + b'\x00' * 6), ('', b'\xa0'), ('a', b'\xa1a'), ('a' * 31, b'\xbf' + b'a' * 31),
        ('a' * 32, b'\xd9\x20' + b'a' * 32), ('a' * 256, b'\xda\x01\x00' + b'a' * 256),
        (b'', b'\xc4\x00'), (b'\x01', b'\xc4\x01\x01'), (b'x' * 256, b'\xc5\x01\x00' + b'x' * 256),
        ([], b'\x90'), ([1, 2], b'\x92\x01\x02'), ([None] * 16, b'\xdc\x00\x10' + b'\xc0' * 16),
        ({}, b'\x80'), ({'a': 1}, b'\x81\xa1a\x01'),
        (RExt(5, b'\x01'), b'\xd4\x05\x01'), (RExt(-1, b'\x01\x02\x03'), b'\xc7\x03\xff\x01\x02\x03'),
        (RExt(1, b'x' * 16), b'\xd8\x01' + b'x' * 16), (RExt(1, b''), b'\xc7\x00\x01'),
    ]
    for v, enc in vec:
        assert encode(v) == enc, (v, encode(v), enc)
        got, pos = decode(enc)
        assert pos == len(enc) and canon(got) == canon(v), (v, got)
        for cut in range(len(enc)):
            try:
                decode(enc[:cut])
            except RefInsufficient:
                pass
            else:
                raise AssertionError(('prefix accepted', enc, cut))
    counter = [0]

    def ch(n):
        counter[0] += 1
        return counter[0]
    for v, _ in vec:
        for _ in range(6):
            e = encode(v, ch)
            got, pos = decode(e)
            assert pos == len(e) and canon(got) == canon(v)
    try:
        decode(b'\xc1')
    except RefReserved:
        pass
    else:
        raise AssertionError('0xc1 accepted')
    try:
        decode(b'\xa1\xff')
    except RefInvalidString:
        pass
    else:
        raise AssertionError('bad utf-8 accepted')
    return True
