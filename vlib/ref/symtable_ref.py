"""Reference for C05: the scope CPython's compiler assigns every identifier read to (stdlib symtable).

align(src, tree) walks the AST in symtable.c visit order and pairs every Name(Load) with the symbol-table block
it is evaluated in; owner(...) then says which scope owns that identifier: module/builtin ('global'), a specific
function ('local' / 'free', with the owning function's (name, lineno)), or a class body ('classlocal').
Python 3.12: list/set/dict comprehensions are inlined (no child table); generator expressions have one.
"""
import ast
import symtable


class Unsupported(Exception):
    pass


class Mismatch(Exception):
    pass


class _Peek(object):
    def __init__(self, items):
        self.items = list(items)
        self.i = 0

    def next(self):
        if self.i >= len(self.items):
            raise Mismatch('symtable has no more children')
        self.i += 1
        return self.items[self.i - 1]

    def peek(self):
        return self.items[self.i] if self.i < len(self.items) else None

    def rest(self):
        return self.items[self.i:]


class ScopeMap(ast.NodeVisitor):
    def __init__(self, top):
        self.stack = [(top, _Peek(top.get_children()))]
        self.reads = []       # (ast.Name, table)
        self.parents = {}
        self.node_of = {}     # table id -> ast node of the scope
        self._real = {}
        self.comp_bound = []  # stack of sets: names bound by the comprehensions we are inside of
        self.comp_reads = {}  # id(node) -> True for reads of a name bound by an enclosing comprehension
        self.comp_targets = {}  # (line, col) of every comprehension target -> (start, end) of its comprehension

    @property
    def cur(self):
        return self.stack[-1][0]

    def really_binds(self, tab, name):
        """True unless `name` is a local of the function only because an inlined comprehension (PEP 709) iterates
        over it: such variables are isolated and invisible to the rest of the function and to nested scopes"""
        node = self.node_of.get(tab.get_id())
        if node is None:
            return True
        k = tab.get_id()
        if k not in self._real:
            self._real[k] = real_bindings(node)
        return name in self._real[k]

    def enter(self, node, name):
        tab, it = self.stack[-1]
        child = it.next()
        if child.get_name() != name:
            raise Mismatch('%s != %s at line %s' % (child.get_name(), name, getattr(node, 'lineno', '?')))
        self.parents[child.get_id()] = tab
        self.node_of[child.get_id()] = node
        self.stack.append((child, _Peek(child.get_children())))

    def leave(self):
        tab, it = self.stack.pop()
        if it.rest():
            raise Mismatch('unvisited children of %s: %s' % (tab.get_name(), [r.get_name() for r in it.rest()]))

    def visit_Name(self, node):
        if isinstance(node.ctx, ast.Load):
            self.reads.append((node, self.cur))
            if any(node.id in s for s in self.comp_bound):
                self.comp_reads[id(node)] = True

    def _args(self, args):
        for d in args.defaults:
            self.visit(d)
        for d in args.kw_defaults:
            if d is not None:
                self.visit(d)

    def _annots(self, args, returns=None):
        for a in args.posonlyargs + args.args:
            if a.annotation:
                self.visit(a.annotation)
        if args.vararg and args.vararg.annotation:
            self.visit(args.vararg.annotation)
        for a in args.kwonlyargs:
            if a.annotation:
                self.visit(a.annotation)
        if args.kwarg and args.kwarg.annotation:
            self.visit(args.kwarg.annotation)
        if returns:
            self.visit(returns)

    def visit_FunctionDef(self, node):
        if getattr(node, 'type_params', None):
            raise Unsupported('type params')
        self._args(node.args)
        for d in node.decorator_list:
            self.visit(d)
        self._annots(node.args, node.returns)
        self.enter(node, node.name)
        for s in node.body:
            self.visit(s)
        self.leave()

    visit_AsyncFunctionDef = visit_FunctionDef

    def visit_Lambda(self, node):
        self._args(node.args)
        self.enter(node, 'lambda')
        self.visit(node.body)
        self.leave()

    def visit_ClassDef(self, node):
        if getattr(node, 'type_params', None):
            raise Unsupported('type params')
        for d in node.decorator_list:
            self.visit(d)
        for b in node.bases:
            self.visit(b)
        for k in node.keywords:
            self.visit(k.value)
        self.enter(node, node.name)
        for s in node.body:
            self.visit(s)
        self.leave()

    def _comp(self, node, name, elts):
        gens = node.generators
        self.visit(gens[0].iter)
        nxt = self.stack[-1][1].peek()
        own_table = nxt is not None and nxt.get_name() == name and nxt.get_lineno() == node.lineno and '.0' in nxt.get_identifiers()
        if name != 'genexpr' and not own_table:
            own_table = False
        bound = set()
        rng = ((node.lineno, node.col_offset), (node.end_lineno, node.end_col_offset))
        for g in gens:
            for n in ast.walk(g.target):
                if isinstance(n, ast.Name) and isinstance(n.ctx, ast.Store):     # tgt[0] only reads tgt
                    bound.add(n.id)
                    self.comp_targets[(n.lineno, n.col_offset)] = rng
        if own_table:
            self.enter(node, name)
        self.comp_bound.append(bound)
        self.visit(gens[0].target)
        for i in gens[0].ifs:
            self.visit(i)
        for g in gens[1:]:
            self.visit(g.target)
            self.visit(g.iter)
            for i in g.ifs:
                self.visit(i)
        for e in elts:
            self.visit(e)
        self.comp_bound.pop()
        if own_table:
            self.leave()

    def visit_ListComp(self, node):
        self._comp(node, 'listcomp', [node.elt])

    def visit_SetComp(self, node):
        self._comp(node, 'setcomp', [node.elt])

    def visit_GeneratorExp(self, node):
        self._comp(node, 'genexpr', [node.elt])

    def visit_DictComp(self, node):
        self._comp(node, 'dictcomp', [node.key, node.value])

    def visit_Try(self, node):
        # symtable.c: body, orelse, handlers, finalbody
        for s in node.body:
            self.visit(s)
        for s in node.orelse:
            self.visit(s)
        for h in node.handlers:
            self.visit(h)
        for s in node.finalbody:
            self.visit(s)

    def visit_TypeAlias(self, node):
        raise Unsupported('type alias')

    def visit_Match(self, node):
        raise Unsupported('match')

    def visit_TryStar(self, node):
        raise Unsupported('try*')


COMP_NAMES = ('listcomp', 'setcomp', 'genexpr', 'dictcomp')


def _scope(sym):
    # Symbol.is_global()/is_local() treat any block *named* "top" as the module block (stdlib quirk):
    # read the raw scope instead
    return sym._Symbol__scope


def sym_is_global(sym):
    return _scope(sym) in (symtable.GLOBAL_IMPLICIT, symtable.GLOBAL_EXPLICIT)


def sym_is_local(sym):
    return _scope(sym) in (symtable.LOCAL, symtable.CELL)


def sym_is_free(sym):
    return _scope(sym) == symtable.FREE


def comp_targets(tab):
    """names bound as iteration variables by generator expressions nested directly (through other comprehension
    blocks) in tab: C05 compares comprehension targets as bindings of the enclosing scope"""
    out = set()
    for c in tab.get_children():
        if is_comp(c):
            for sy in c.get_symbols():
                if sym_is_local(sy) and sy.get_name() != '.0' and sy.is_assigned():
                    out.add(sy.get_name())
            out |= comp_targets(c)
    return out


def is_comp(t):
    # a user function may be *named* listcomp / genexpr (test_peepholer.py has `def listcomp():`): a real
    # comprehension block is recognised by its implicit first parameter `.0`
    return t.get_type() == 'function' and t.get_name() in COMP_NAMES and '.0' in t.get_identifiers()


def real_bindings(fn):
    """names bound in the body of function/lambda `fn` by anything but a comprehension's iteration variables"""
    out = set()
    a = fn.args
    for p in a.posonlyargs + a.args + a.kwonlyargs + ([a.vararg] if a.vararg else []) + ([a.kwarg] if a.kwarg else []):
        out.add(p.arg)

    def walk(node, in_comp_target=False):
        for c in ast.iter_child_nodes(node):
            if isinstance(c, (ast.FunctionDef, ast.AsyncFunctionDef, ast.ClassDef)):
                out.add(c.name)
                for d in c.decorator_list:
                    walk(d)
                continue
            if isinstance(c, ast.Lambda):
                continue
            if isinstance(c, (ast.ListComp, ast.SetComp, ast.DictComp, ast.GeneratorExp)):
                for g in c.generators:
                    walk(g.iter)
                    for i in g.ifs:
                        walk(i)
                for f in ('elt', 'key', 'value'):
                    if hasattr(c, f):
                        walk(getattr(c, f))
                continue
            if isinstance(c, ast.Name) and isinstance(c.ctx, (ast.Store, ast.Del)):
                out.add(c.id)
            elif isinstance(c, (ast.Import, ast.ImportFrom)):
                for al in c.names:
                    if al.name != '*':
                        out.add(al.asname or al.name.partition('.')[0])
            elif isinstance(c, ast.ExceptHandler) and c.name:
                out.add(c.name)
            elif isinstance(c, (ast.Global, ast.Nonlocal)):
                out.update(c.names)
            elif hasattr(ast, 'MatchAs') and isinstance(c, (ast.MatchAs, ast.MatchStar)) and c.name:
                out.add(c.name)
            elif hasattr(ast, 'MatchMapping') and isinstance(c, ast.MatchMapping) and c.rest:
                out.add(c.rest)
            walk(c)
    body = fn.body if isinstance(fn.body, list) else [fn.body]
    for st in body:
        holder = ast.Module(body=[st], type_ignores=[]) if isinstance(st, ast.stmt) else ast.Expression(body=st)
        walk(holder)
    return out


def owner(tab, name, parents, sm=None):
    """-> ('global', None) | ('local', table) | ('free', table) | ('classlocal', table) | ('?', None)"""
    def find_owner(tt):
        while True:
            tt = parents.get(tt.get_id())
            if tt is None or tt.get_type() == 'module':
                return None
            if tt.get_type() == 'function' and not is_comp(tt):
                try:
                    sy = tt.lookup(name)
                except KeyError:
                    continue
                if sym_is_local(sy) and (sm is None or sm.really_binds(tt, name)):
                    return tt
    t = tab
    while True:
        try:
            sym = t.lookup(name)
        except KeyError:
            sym = None
        if t.get_type() == 'module':
            return ('global', None)
        if sym is None:
            return ('?', None)
        if is_comp(t):
            if sym_is_local(sym):
                tt = parents[t.get_id()]
                while is_comp(tt):
                    tt = parents[tt.get_id()]
                if tt.get_type() == 'function':
                    return ('local', tt)
                if tt.get_type() == 'module':
                    return ('global', None)
                return ('classlocal', tt)
            t = parents[t.get_id()]
            continue
        if sym_is_global(sym):
            return ('global', None)
        if t.get_type() == 'class':
            if sym_is_local(sym):
                return ('classlocal', t)
            if sym_is_free(sym):
                o = find_owner(t)
                return ('free', o) if o else ('?', None)
            return ('?', None)
        if sym_is_free(sym):
            o = find_owner(t)
            return ('free', o) if o else ('?', None)
        if sym_is_local(sym):
            if sm is not None and t.get_type() == 'function' and not sm.really_binds(t, name):
                # local only through an inlined comprehension: the read itself resolves outwards
                o = find_owner(t)
                return ('free', o) if o else ('global', None)
            return ('local', t)
        return ('?', None)


_tc = {}


def _targets_cache(t):
    k = t.get_id()
    if k not in _tc:
        if len(_tc) > 5000:
            _tc.clear()
        _tc[k] = comp_targets(t)
    return _tc[k]


def align(src, tree, filename='<c05>'):
    try:
        top = symtable.symtable(src, filename, 'exec')
    except SyntaxError as e:          # the compiler rejects what ast.parse accepts (bad __future__ import, return outside function ...)
        raise Unsupported('compiler rejects the module: %s' % e.msg)
    sm = ScopeMap(top)
    sm.visit(tree)
    if sm.stack[0][1].rest():
        raise Mismatch('unvisited top-level children')
    return sm
