"""Purely syntactic reference for C10: which never-read bindings must be reported as unused.

No flow analysis: an identifier counts as 'never read' iff the file has no ast.Name in Load context with that
id.  For each such identifier every binding occurrence is classified by (binding kind, scope kind) and the
statement of C10 decides whether it is reported (W01 / W02).
"""
import ast
import re

COMPS = (ast.ListComp, ast.SetComp, ast.DictComp, ast.GeneratorExp)


class Binding(object):
    __slots__ = ('name', 'pos', 'kind', 'scope', 'is_method_param', 'module')

    def __init__(self, name, pos, kind, scope, is_method_param=False, module=None):
        self.name = name
        self.pos = pos
        self.kind = kind            # assign for with except comp walrus def class import import-dotted from-import future star param
        self.scope = scope          # module class function lambda
        self.is_method_param = is_method_param
        self.module = module

    def __repr__(self):
        return 'Binding(%s %s %s in %s)' % (self.name, self.pos, self.kind, self.scope)


def loads(tree):
    return {n.id for n in ast.walk(tree) if isinstance(n, ast.Name) and isinstance(n.ctx, ast.Load)}


def _targets(t, out):
    if isinstance(t, ast.Name):
        out.append(t)
    elif isinstance(t, (ast.Tuple, ast.List)):
        for e in t.elts:
            _targets(e, out)
    elif isinstance(t, ast.Starred):
        _targets(t.value, out)
    return out


def def_name_pos(lines, node, kw):
    """position of the identifier after `def` / `class` (None if it cannot be located on the keyword's line)"""
    # ast columns are UTF-8 byte offsets: work on the encoded line
    line = lines[node.lineno - 1].encode('utf-8')
    m = re.compile((r'(async\s+)?%s\s+' % kw).encode()).match(line, node.col_offset)
    if not m:
        return None
    col = m.end()
    nb = node.name.encode('utf-8')
    if line[col:col + len(nb)] != nb:
        return None
    return (node.lineno, col)


def _plines(src):
    out = re.split(r'\r\n|\r|\n', src)
    if len(out) > 1 and not out[-1]:
        out.pop()
    return out


def alias_pos(lines, alias, bound):
    if not alias.asname:
        return (alias.lineno, alias.col_offset)
    # asname: last identifier of the alias source range
    l, c = alias.end_lineno, alias.end_col_offset
    line = lines[l - 1].encode('utf-8')         # byte offsets, as in ast
    nb = bound.encode('utf-8')
    if line[c - len(nb):c] == nb:
        return (l, c - len(nb))
    return None


class Collector(ast.NodeVisitor):
    def __init__(self, src):
        self.lines = _plines(src)
        self.bindings = []
        self.stack = [('module', None, set(), set())]     # (kind, node, globals, nonlocals)
        self.uncertain = set()                              # names whose classification the statement leaves open
        self.reads_locals = False

    # nearest scope that owns plain bindings (comprehensions are transparent)
    @property
    def cur(self):
        return self.stack[-1]

    def add(self, name, pos, kind, **kw):
        skind, node, gl, nl = self.cur
        if name in gl:
            return                          # module-level binding made from a function: not a local
        if name in nl:
            self.uncertain.add(name)
            return
        self.bindings.append(Binding(name, pos, kind, skind, **kw))

    def visit_Name(self, node):
        if isinstance(node.ctx, ast.Load) and node.id == 'locals':
            self.reads_locals = True

    def _decl_scan(self, body):
        gl, nl = set(), set()
        for st in body:
            for n in ast.walk(st):
                if isinstance(n, (ast.FunctionDef, ast.AsyncFunctionDef, ast.Lambda, ast.ClassDef)) and n is not st:
                    pass
        return gl, nl

    def _scope_decls(self, node):
        """global / nonlocal declarations belonging to this function body (not to nested scopes)"""
        gl, nl = set(), set()

        def walk(n):
            for c in ast.iter_child_nodes(n):
                if isinstance(c, (ast.FunctionDef, ast.AsyncFunctionDef, ast.Lambda, ast.ClassDef)):
                    continue
                if isinstance(c, ast.Global):
                    gl.update(c.names)
                elif isinstance(c, ast.Nonlocal):
                    nl.update(c.names)
                walk(c)
        walk(node)
        return gl, nl

    def visit_FunctionDef(self, node):
        pos = def_name_pos(self.lines, node, 'def')
        if pos is None:
            self.uncertain.add(node.name)
        else:
            self.add(node.name, pos, 'def')
        for d in node.decorator_list:
            self.visit(d)
        self._visit_args_outer(node.args)
        if node.returns:
            self.visit(node.returns)
        is_method = self.cur[0] == 'class'
        gl, nl = self._scope_decls(node)
        self.stack.append(('function', node, gl, nl))
        self._params(node.args, is_method)
        for st in node.body:
            self.visit(st)
        self.stack.pop()

    visit_AsyncFunctionDef = visit_FunctionDef

    def _visit_args_outer(self, a):
        for d in a.defaults:
            self.visit(d)
        for d in a.kw_defaults:
            if d is not None:
                self.visit(d)
        for p in a.posonlyargs + a.args + a.kwonlyargs + ([a.vararg] if a.vararg else []) + ([a.kwarg] if a.kwarg else []):
            if p.annotation:
                self.visit(p.annotation)

    def _params(self, a, is_method):
        for p in a.posonlyargs + a.args + a.kwonlyargs + ([a.vararg] if a.vararg else []) + ([a.kwarg] if a.kwarg else []):
            self.add(p.arg, (p.lineno, p.col_offset), 'param', is_method_param=is_method)

    def visit_Lambda(self, node):
        self._visit_args_outer(node.args)
        if self.cur[0] == 'class':
            # a lambda written directly in a class body: the statement does not say whether its parameters are
            # "parameters of a method"; the check takes no side
            for p in ast.walk(node.args):
                if isinstance(p, ast.arg):
                    self.uncertain.add(p.arg)
        self.stack.append(('lambda', node, set(), set()))
        self._params(node.args, False)
        self.visit(node.body)
        self.stack.pop()

    def visit_ClassDef(self, node):
        pos = def_name_pos(self.lines, node, 'class')
        if pos is None:
            self.uncertain.add(node.name)
        else:
            self.add(node.name, pos, 'class')
        for d in node.decorator_list:
            self.visit(d)
        for b in node.bases:
            self.visit(b)
        for k in node.keywords:
            self.visit(k.value)
        self.stack.append(('class', node, set(), set()))
        for st in node.body:
            self.visit(st)
        self.stack.pop()

    def visit_Assign(self, node):
        for t in node.targets:
            for n in _targets(t, []):
                self.add(n.id, (n.lineno, n.col_offset), 'assign')
        self.generic_visit(node)

    def visit_AnnAssign(self, node):
        if node.value is not None and isinstance(node.target, ast.Name):
            self.add(node.target.id, (node.target.lineno, node.target.col_offset), 'assign')
        self.generic_visit(node)

    def visit_AugAssign(self, node):
        # supp registers no binding for an augmented assignment; the statement lists no such kind either
        if isinstance(node.target, ast.Name):
            self.uncertain.add(node.target.id)
        self.generic_visit(node)

    def visit_NamedExpr(self, node):
        # PEP 572: binds in the nearest enclosing non-comprehension scope
        self.add(node.target.id, (node.target.lineno, node.target.col_offset), 'walrus')
        self.visit(node.value)

    def visit_For(self, node):
        for n in _targets(node.target, []):
            self.add(n.id, (n.lineno, n.col_offset), 'for')
        self.generic_visit(node)

    visit_AsyncFor = visit_For

    def visit_With(self, node):
        for it in node.items:
            if it.optional_vars is not None:
                for n in _targets(it.optional_vars, []):
                    self.add(n.id, (n.lineno, n.col_offset), 'with')
        self.generic_visit(node)

    visit_AsyncWith = visit_With

    def visit_ExceptHandler(self, node):
        if node.name:
            self.add(node.name, (node.lineno, node.col_offset), 'except')
        self.generic_visit(node)

    def _comp(self, node):
        for g in node.generators:
            for n in _targets(g.target, []):
                self.add(n.id, (n.lineno, n.col_offset), 'comp')
        self.generic_visit(node)

    visit_ListComp = visit_SetComp = visit_DictComp = visit_GeneratorExp = _comp

    def visit_Import(self, node):
        for a in node.names:
            bound = a.asname or a.name.partition('.')[0]
            pos = alias_pos(self.lines, a, bound)
            if pos is None:
                self.uncertain.add(bound)
                continue
            self.add(bound, pos, 'import-dotted' if (not a.asname and '.' in a.name) else 'import')

    def visit_ImportFrom(self, node):
        for a in node.names:
            if a.name == '*':
                continue
            bound = a.asname or a.name
            pos = alias_pos(self.lines, a, bound)
            if pos is None:
                self.uncertain.add(bound)
                continue
            self.add(bound, pos, 'future' if (node.module == '__future__' and not node.level) else 'from-import')

    def visit_Delete(self, node):
        for t in node.targets:
            for n in ast.walk(t):
                if isinstance(n, ast.Name):
                    self.uncertain.add(n.id)      # `del x` is outside the statement
        self.generic_visit(node)


def expected_reports(src, tree=None):
    """-> (set of (code, name, line, col), info).  Only identifiers never read in the file are considered."""
    tree = tree or ast.parse(src)
    c = Collector(src)
    c.visit(tree)
    read = loads(tree)
    out = []
    considered = []
    for b in c.bindings:
        if b.name in read or b.name in c.uncertain:
            continue
        considered.append(b)
        if b.name.startswith('_'):
            continue
        if b.scope in ('function', 'lambda'):
            if b.kind == 'param' and b.is_method_param:
                continue
            out.append(('W01', b.name, b.pos[0], b.pos[1]))
        elif b.kind in ('import', 'import-dotted', 'from-import'):
            out.append(('W02', b.name, b.pos[0], b.pos[1]))
    return out, {'considered': considered, 'read': read, 'uncertain': c.uncertain, 'reads_locals': c.reads_locals}
