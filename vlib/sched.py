"""Deterministic line-level scheduler for supp.remote.Environment (C16).

Every thread that runs code of supp/remote.py is owned by the scheduler: a `line` trace event in that file is a
yield point; supp.remote.Thread / Lock are replaced by scheduler-aware fakes (a thread blocked on the lock or in
join is simply not enabled); Environment._run runs for real under the scheduler, only subprocess.Popen (a counting
fake that can fail once) and multiprocessing.connection.Client (a connection that answers requests in FIFO order like
the real server does) are replaced.  A schedule is the list of choices made at the points
where more than one thread is enabled; run() replays a prefix and then continues without preemption.
"""
import collections
import sys
import threading

_tls = threading.local()


class Deadlock(Exception):
    pass


class HarnessTimeout(Exception):
    pass


class Abandoned(BaseException):
    """raised inside a scheduled thread when its schedule ended in a deadlock: the thread unwinds instead of staying
    blocked for ever (thousands of deadlocking schedules would otherwise exhaust the process's thread limit)"""


class Sched(object):
    def __init__(self, schedule, remote_file):
        self.schedule = list(schedule)
        self.remote_file = remote_file
        self.threads = collections.OrderedDict()
        self.back = threading.Semaphore(0)
        self.lock_owner = {}
        self.choices = []      # (n enabled, chosen index, default index)
        self.trace = []        # (thread id, line)
        self.last = None
        self.launches = 0
        self.closes = 0
        self.max_live = 0
        self.preempt_lines = set()
        self.abandoned = False

    # ---- called from worker threads
    def yield_point(self):
        if self.abandoned:
            raise Abandoned()
        st = self.threads[_tls.tid]
        self.back.release()
        st['go'].acquire()
        if self.abandoned:
            raise Abandoned()

    def abandon(self):
        """let every unfinished thread unwind (after a deadlock); their exceptions are not part of the verdict"""
        self.abandoned = True
        left = [st for st in self.threads.values() if not st['done']]
        for st in left:
            st['go'].release()
        for st in left:
            self.back.acquire(timeout=5)

    def tracer(self):
        def local(frame, event, arg):
            if event == 'line':
                self.threads[_tls.tid]['line'] = frame.f_lineno
                self.yield_point()
            return local

        def glob(frame, event, arg):
            if frame.f_code.co_filename == self.remote_file:
                return local
            return None
        return glob

    def spawn(self, tid, fn):
        st = {'done': False, 'blocked': None, 'exc': None, 'line': None, 'result': None, 'go': threading.Semaphore(0)}
        self.threads[tid] = st

        def body():
            _tls.tid = tid
            st['go'].acquire()
            sys.settrace(self.tracer())
            try:
                if self.abandoned:
                    raise Abandoned()
                st['result'] = fn()
            except BaseException as e:      # noqa: recorded and reported by the checker
                st['exc'] = e
            finally:
                sys.settrace(None)
                st['done'] = True
                self.back.release()
        t = threading.Thread(target=body, daemon=True)
        t.start()

    # ---- scheduler loop
    def enabled(self):
        out = []
        for tid, st in self.threads.items():
            if st['done']:
                continue
            b = st['blocked']
            if b is None or (b[0] == 'lock' and self.lock_owner.get(b[1]) is None) or (b[0] == 'join' and self.threads[b[1]]['done']):
                out.append(tid)
        return out

    def run(self):
        step = 0
        while True:
            en = self.enabled()
            if not en:
                if all(st['done'] for st in self.threads.values()):
                    return
                info = [(t, s['blocked'], s['line']) for t, s in self.threads.items() if not s['done']]
                self.abandon()
                raise Deadlock(info)
            dflt = en.index(self.last) if self.last in en else 0
            if len(en) > 1:
                if step < len(self.schedule):
                    k = self.schedule[step] % len(en)
                else:
                    k = dflt
                self.choices.append((len(en), k, dflt))
                step += 1
            else:
                k = 0
            tid = en[k]
            if self.last is not None and tid != self.last and self.last in en:
                self.preempt_lines.add((self.last, self.threads[self.last]['line']))
            self.last = tid
            self.trace.append((tid, self.threads[tid]['line']))
            self.threads[tid]['go'].release()
            if not self.back.acquire(timeout=20):
                raise HarnessTimeout('thread %s did not come back' % tid)


def install(sched, remote_module, fail_first_launch=False):
    """Build an Environment wired to the scheduler. Returns (env, restore)"""
    R = remote_module

    class FLock(object):
        def __init__(self_, name='prepare_lock'):
            self_.name = name

        def __enter__(self_):
            tid = _tls.tid
            while sched.lock_owner.get(self_.name) is not None:
                sched.threads[tid]['blocked'] = ('lock', self_.name)
                sched.yield_point()
            sched.threads[tid]['blocked'] = None
            sched.lock_owner[self_.name] = tid

        def __exit__(self_, *a):
            sched.lock_owner[self_.name] = None

        def acquire(self_, *a, **k):
            self_.__enter__()
            return True

        def release(self_):
            self_.__exit__()

    class FThread(object):
        def __init__(self_, target=None, args=(), kwargs=None, **kw):
            self_.target = target
            self_.args = args
            self_.kwargs = kwargs or {}
            self_.tid = None

        def start(self_):
            self_.tid = 'S%d' % len(sched.threads)
            sched.spawn(self_.tid, lambda: self_.target(*self_.args, **self_.kwargs))

        def join(self_, timeout=None):
            if self_.tid is None:
                raise RuntimeError('cannot join thread before it is started')      # as threading.Thread does
            tid = _tls.tid
            while not sched.threads[self_.tid]['done']:
                sched.threads[tid]['blocked'] = ('join', self_.tid)
                sched.yield_point()
            sched.threads[tid]['blocked'] = None

        def is_alive(self_):
            return self_.tid is not None and not sched.threads[self_.tid]['done']

    class FConn(object):
        """Answers like the server: one reply per request, in the order the requests arrive."""

        def __init__(self_):
            self_.queue = collections.deque()
            self_.closed = False

        def send_bytes(self_, b):
            name, args, kwargs = R.loads(b)
            if name == 'close':
                sched.closes += 1
                self_.closed = True
                return
            self_.queue.append(R.dumps((['reply-to', name, list(args)], True)))

        def recv_bytes(self_):
            if not self_.queue:
                raise EOFError('no reply pending')
            return self_.queue.popleft()

        def close(self_):
            self_.closed = True

    env = R.Environment()
    env.prepare_lock = FLock('prepare_lock')

    state = {'fail': bool(fail_first_launch)}

    # Environment._run itself runs under the scheduler; only what it reaches outside supp/remote.py is faked:
    # subprocess.Popen (counts launches, may fail once) and multiprocessing.connection.Client (the FIFO connection)
    import subprocess
    import multiprocessing.connection as mpc

    class FProc(object):
        pid = 0

        def poll(self_):
            return None

        def wait(self_, timeout=None):
            return 0

        def kill(self_):
            pass

        terminate = kill

    def fake_popen(*a, **k):
        if state['fail']:
            state['fail'] = False
            sched.failed_launches = getattr(sched, 'failed_launches', 0) + 1
            sched.failed_in = _tls.tid
            raise OSError('injected launch failure')
        sched.launches += 1
        sched.max_live = max(sched.max_live, sched.launches - sched.closes)
        return FProc()

    def fake_client(address, *a, **k):
        return FConn()

    old = (R.Thread, R.Lock, subprocess.Popen, mpc.Client)
    R.Thread = FThread
    R.Lock = FLock
    subprocess.Popen = fake_popen
    mpc.Client = fake_client
    # locks the Environment may create besides prepare_lock (e.g. a call lock) become scheduler-aware too
    for name, val in list(vars(env).items()):
        if name != 'prepare_lock' and type(val).__name__ in ('lock', 'RLock') or (name.endswith('_lock') and name != 'prepare_lock'):
            setattr(env, name, FLock(name))

    def restore():
        R.Thread, R.Lock, subprocess.Popen, mpc.Client = old
    return env, restore
