"""Views of supp's answers used as the 'implementation side' of several oracles."""
import ast
import os

from . import core

FIXTURES = os.path.join(core.VERIF, 'fixtures', 'proj')


def project(extra_roots=()):
    from supp.project import Project
    return Project([FIXTURES] + list(extra_roots))


def filename_for(package):
    """package: False/0 = top-level script, True/1 = module of package fx_pkg, 2 = module of the nested package fx_pkg.inner"""
    if package == 2:
        return os.path.join(FIXTURES, 'fx_pkg', 'inner', 'gen_prog.py')
    return os.path.join(FIXTURES, 'fx_pkg', 'gen_prog.py') if package else os.path.join(FIXTURES, 'gen_prog.py')


def analyse(src, filename, proj):
    """Fresh analysis of src: returns (Source, SourceScope)."""
    from supp.util import Source
    from supp.nast import extract_scope
    s = Source(src, filename)
    scope = extract_scope(s, proj)
    return s, scope


def load_names(tree):
    """All ast.Name nodes in Load context, in ast.walk order (own walk, not supp's)."""
    return [n for n in ast.walk(tree) if isinstance(n, ast.Name) and isinstance(n.ctx, ast.Load)]


def alt_summary(alt):
    from supp.name import UndefinedName
    if isinstance(alt, UndefinedName):
        return ('undefined', (0, 0))
    return (type(alt).__name__, tuple(getattr(alt, 'declared_at', None) or (0, 0)))


def summarize(node):
    """Summary of what supp resolves an analysed ast.Name read to.

    -> 'E42' (read never visited) | None (name not visible) |
       {'alts': sorted [(kind, declared_at)], 'undefined': bool, 'visible': sorted names}
    """
    from supp.name import MultiName
    if not hasattr(node, 'flow'):
        return 'E42'
    names = node.flow.names_at((node.lineno, node.col_offset))
    v = names.get(node.id)
    if v is None:
        return None
    if isinstance(v, MultiName):
        alts = sorted(alt_summary(a) for a in v.valid_names)
        und = bool(v.has_undefined)
    else:
        alts = [alt_summary(v)]
        und = False
    return {'alts': alts, 'undefined': und}


def visible_names(node):
    names = node.flow.names_at((node.lineno, node.col_offset))
    return sorted(set(names))


def fresh_read(src, filename, proj, pos, want_visible=False):
    """Answer for the read at pos=(line, col) when it is the FIRST query on a fresh analysis."""
    s, scope = analyse(src, filename, proj)
    for n in load_names(s.tree):
        if (n.lineno, n.col_offset) == pos:
            out = summarize(n)
            if want_visible and isinstance(out, dict):
                out['visible'] = visible_names(n)
            return out
    raise KeyError(pos)


def shared_reads(src, filename, proj):
    """Answers for every read when all reads are queried in source order on ONE analysis (the linter's usage
    pattern): {pos: summary}"""
    s, scope = analyse(src, filename, proj)
    out = {}
    for n in sorted(load_names(s.tree), key=lambda n: (n.lineno, n.col_offset)):
        out[(n.lineno, n.col_offset)] = summarize(n)
    return out


def lint_view(proj, src, filename):
    from supp.linter import lint
    out = {'E01': [], 'E02': set(), 'E42': set(), 'W01': set(), 'W02': set(), 'raw': []}
    for r in lint(proj, src, filename):
        code, msg, line, col = r[:4]
        out['raw'].append((code, msg, line, col))
        if code == 'E01':
            out['E01'].append((msg, line, col))
        else:
            name = msg.rpartition(': ')[2]
            out.setdefault(code, set()).add((line, col, name))
    return out


def parent_context(tree, pos):
    """Short description of where the read at pos sits syntactically, e.g. 'FunctionDef.args.kw_defaults'."""
    found = []

    def walk(node, trail):
        for field, value in ast.iter_fields(node):
            items = value if isinstance(value, list) else [value]
            for it in items:
                if isinstance(it, ast.AST):
                    t2 = trail + [(type(node).__name__, field)]
                    if isinstance(it, ast.Name) and (it.lineno, it.col_offset) == pos:
                        found.append(t2)
                    walk(it, t2)
    walk(tree, [])
    if not found:
        return '?'
    trail = found[0]
    # nearest enclosing arguments / arg / keyword / withitem / comprehension / statement field
    anchors = ('arguments', 'arg', 'keyword', 'withitem', 'comprehension', 'ExceptHandler')
    for tname, field in reversed(trail):
        if tname in anchors or field in ('decorator_list', 'bases', 'returns', 'iter', 'test', 'orelse', 'finalbody'):
            return '%s.%s' % (tname, field)
    for tname, field in reversed(trail):
        if field in ('body', 'value', 'targets', 'target', 'args', 'elt', 'key'):
            return '%s.%s' % (tname, field)
    return '%s.%s' % trail[-1]


def base_assigned_names(src, filename, line, value_end_col):
    """For the attribute access whose receiver ends at (line, value_end_col): if the receiver, evaluated as the first query of
    a fresh analysis on a fresh project, is an instance of a source class, the names its BASE classes assign through self
    (the tables InstanceValue._assigned merges); otherwise None.  Used only to classify one listed finding."""
    import ast as _ast
    from supp.evaluator import EvalCtx
    proj = project()
    s, scope = analyse(src, filename, proj)
    for n in _ast.walk(s.tree):
        if isinstance(n, _ast.Attribute) and n.value.end_lineno == line and n.value.end_col_offset == value_end_col:
            ctx = EvalCtx(proj)
            v = ctx.evaluate(n.value)
            if type(v).__name__ != 'InstanceValue':
                return None
            out = set()
            try:
                for table in v._base_assignments():
                    out.update(table)
            except Exception:
                return None
            return out
    return None
