"""dynref: what CPython actually binds.

Instruments a program (AST -> AST) so that real CPython executions report, for every
identifier read (by source position), whether the read succeeded and which binding site
supplied the value, and enumerates every sequence of branch / trip-count / raise decisions
(DFS with replay).  See DESIGN.md section 3.1.

A *site* is the (line, col) supp calls `declared_at`: the bound identifier, the `except`
keyword for handler names, the `*` for star-imported names.
"""
import ast
import builtins
import importlib
import sys

PFX = '_vrt_'
HELPER_NAMES = {'risky', 'use'}


class Tag(object):
    """Opaque value carrying the site of the binding it was read from."""
    __slots__ = ('site', 'v')

    def __init__(self, site, v=None):
        object.__setattr__(self, 'site', site)
        object.__setattr__(self, 'v', v)

    def __call__(self, *a, **k):
        v = self.v
        if isinstance(v, Tag):
            return v(*a, **k)
        if callable(v):
            rt = RUNTIME[0]
            if rt.depth >= rt.max_depth:
                rt.cut = True
                return Tag(None)
            rt.depth += 1
            try:
                return v(*a, **k)
            except TypeError:
                if rt.lenient:
                    return Tag(None)      # classifier runs: a call that cannot bind its arguments is skipped
                rt.dead = True
                raise
            finally:
                rt.depth -= 1
        return Tag(None)

    def __getattr__(self, n):
        if n.startswith('__') and n.endswith('__'):
            raise AttributeError(n)
        v = self.v
        if v is not None and not isinstance(v, Tag):
            try:
                return getattr(v, n)
            except AttributeError:
                pass
        return Tag(None)

    def __setattr__(self, n, val):
        pass

    def __get__(self, obj, cls=None):
        v = self.v
        if v is not None and hasattr(v, '__get__') and not isinstance(v, Tag):
            return Tag(self.site, v.__get__(obj, cls))
        return self

    def __iter__(self):
        return iter(())

    def __bool__(self):
        return True

    def __enter__(self):
        return Tag(None)

    def __exit__(self, *a):
        return False

    def __getitem__(self, k):
        return Tag(None)

    def __setitem__(self, k, v):
        pass

    def __mro_entries__(self, bases):
        v = unwrap(self)
        return (v,) if isinstance(v, type) else ()

    def __repr__(self):
        return 'Tag(%r)' % (self.site,)

    def _binop(self, other):
        return Tag(None)
    __add__ = __radd__ = __sub__ = __rsub__ = __mul__ = __rmul__ = __or__ = __and__ = _binop
    __lt__ = __gt__ = __le__ = __ge__ = _binop

    def __eq__(self, other):
        return self is other

    def __hash__(self):
        return id(self)


def unwrap(x):
    while isinstance(x, Tag) and x.v is not None:
        x = x.v
    return x


RUNTIME = [None]


class Runtime(object):
    def __init__(self, prefix, mode, max_decisions=60, max_depth=3, lenient=False):
        self.lenient = lenient
        self.prefix = prefix
        self.pos = 0
        self.arities = []
        self.events = []      # (read_id, 'ok'|'unbound', site)
        self.order = []       # sequence of (kind, id) : 'r' reads and 'b' binding executions, for trace classifiers
        self.mode = mode
        self.trips = {}
        self.depth = 0
        self.max_depth = max_depth
        self.max_decisions = max_decisions
        self.cut = False
        self.dead = False
        self.finished = None

    def decide(self, arity):
        if self.pos >= self.max_decisions:
            self.cut = True
            return 0
        if self.pos < len(self.prefix):
            c = self.prefix[self.pos]
        else:
            c = 0
        self.arities.append(arity)
        self.pos += 1
        return c

    # ---- injected helpers
    def T(self, site, v):
        self.order.append(('b', site))
        return Tag(site, v)

    def _unwinding(self):
        """an exception other than the generated ValueError/KeyError is propagating (we are in a finally block on
        the way out): in abort mode what happens now is not part of a normal execution"""
        et = sys.exc_info()[0]
        if et is not None and self.mode == 'abort' and not issubclass(et, (ValueError, KeyError, NameError)):
            self.dead = True

    def R(self, rid, thunk):
        self._unwinding()
        try:
            v = thunk()
        except NameError:
            if not self.dead:
                self.events.append((rid, 'unbound', None))
                self.order.append(('r', rid, None))
            if self.mode == 'abort':
                self.dead = True
                raise
            return Tag(None)
        if not self.dead:
            site = v.site if isinstance(v, Tag) else 'untagged'
            self.events.append((rid, 'ok', site))
            self.order.append(('r', rid, site))
        return v

    def RC(self, rid, name, ns, thunk):
        self._unwinding()
        if name in ns:
            v = ns[name]
            if not self.dead:
                site = v.site if isinstance(v, Tag) else 'untagged'
                self.events.append((rid, 'ok', site))
                self.order.append(('r', rid, site))
            return v
        return self.R(rid, thunk)

    def C(self, v):
        return bool(self.decide(2))

    def W0(self, k):
        self.trips[k] = 0

    def W(self, k, v):
        if self.trips.get(k, 0) >= 2:
            return False
        r = bool(self.decide(2))
        if r:
            self.trips[k] = self.trips.get(k, 0) + 1
        return r

    def IT(self, shape, v):
        n = self.decide(3)
        return [shaped(shape) for _ in range(n)]

    def ITC(self, shape, v):
        """comprehension iterable: leaves of shape are sites -> tagged values"""
        n = self.decide(3)
        out = []
        for _ in range(n):
            self._mark_sites(shape)
            out.append(shaped_sites(shape))
        return out

    def _mark_sites(self, shape):
        if isinstance(shape, tuple) and shape and shape[0] == '@':
            self.order.append(('b', (shape[1], shape[2])))
        elif isinstance(shape, (tuple, list)):
            for s in shape:
                self._mark_sites(s)

    def SH(self, shape, v):
        return shaped(shape)

    def CM(self, shape, v):
        return _CM(shape)

    def U(self, v):
        return unwrap(v)

    def risky(self, *a):
        if self.decide(2):
            raise ValueError('risky')
        return Tag(None)

    def use(self, *a, **k):
        return Tag(None)


class _CM(object):
    def __init__(self, shape):
        self.shape = shape

    def __enter__(self):
        if self.shape is None:
            return Tag(None)
        RUNTIME[0]._mark_sites(self.shape)
        return shaped_sites(self.shape)

    def __exit__(self, *a):
        return False


def shaped(shape):
    """shape: None (leaf) | '*' (starred leaf) | tuple of shapes"""
    if shape is None or shape == '*':
        return Tag(None)
    out = []
    for s in shape:
        if s == '*':
            out.append(Tag(None))
            out.append(Tag(None))
        elif isinstance(s, tuple) and s and s[0] == '*':       # *(a, b): exactly as many items as the starred sequence has
            out.extend(shaped(x) for x in s[1:])
        else:
            out.append(shaped(s))
    return tuple(out)


def shaped_sites(shape):
    """shape leaves are ('@', line, col) sites or nested tuples"""
    if isinstance(shape, tuple) and shape and shape[0] == '@':
        return Tag((shape[1], shape[2]))
    if shape is None:
        return Tag(None)
    return tuple(shaped_sites(s) for s in shape)


# ---------------------------------------------------------------------------
# instrumentation

def target_names(t, out):
    if isinstance(t, ast.Name):
        out.append(t)
    elif isinstance(t, (ast.Tuple, ast.List)):
        for e in t.elts:
            target_names(e, out)
    elif isinstance(t, ast.Starred):
        target_names(t.value, out)
    return out


def shape_of(t):
    if isinstance(t, (ast.Tuple, ast.List)):
        return tuple(shape_of(e) for e in t.elts)
    if isinstance(t, ast.Starred):
        if isinstance(t.value, (ast.Tuple, ast.List)):
            return ('*',) + tuple(shape_of(e) for e in t.value.elts)
        return '*'
    return None


def site_shape_of(t):
    if isinstance(t, (ast.Tuple, ast.List)):
        return tuple(site_shape_of(e) for e in t.elts)
    if isinstance(t, ast.Name):
        return ('@', t.lineno, t.col_offset)
    if isinstance(t, (ast.Attribute, ast.Subscript)):
        return None         # stores into an object: binds no name
    if isinstance(t, ast.Starred) and isinstance(t.value, ast.Name):
        return ('@', t.value.lineno, t.value.col_offset)
    raise Unsupported('comprehension target %s' % type(t).__name__)


class Unsupported(Exception):
    pass


def call(name, *args):
    return ast.Call(ast.Name(PFX + name, ast.Load()), list(args), [])


def const(v):
    if isinstance(v, tuple):
        return ast.Tuple([const(i) for i in v], ast.Load())
    return ast.Constant(v)


def site_of(node):
    return (node.lineno, node.col_offset)


class Instrument(ast.NodeTransformer):
    def __init__(self, src, star_names=None, import_ok=None):
        self.reads = {}       # rid -> (line, col, name)
        self.read_scope = {}  # rid -> scope id
        self.sites = {}       # site -> (name, kind, scope id)
        self.scope = [('module', 0)]
        self.scope_counter = 0
        self.lines = src.splitlines()
        self.nwhile = 0
        self.star_names = star_names or (lambda module, level: [])
        self.comp_depth = 0
        self.global_decl = {}   # scope id -> names declared global there
        self.nonlocal_decl = {}
        self.class_comp_reads = set()   # reads inside a comprehension (not its first iterable) written directly in a class body
        self.global_sites = set()   # sites of bindings made under a global declaration inside a function
        self.ann_range = {}     # position of an annotation read -> (start, end) of its annotated assignment

    # -- scope ids: module=0, each def/lambda/class/genexpr gets a fresh id
    def push(self, kind):
        self.scope_counter += 1
        self.scope_info = getattr(self, 'scope_info', {})
        self.scope_info[self.scope_counter] = (kind, self.scope[-1][1])       # scope id -> (kind, enclosing scope id)
        self.scope.append((kind, self.scope_counter))

    def module_level(self, sid):
        """True for the module scope and for generator expressions nested directly (through other generator expressions) in it"""
        info = getattr(self, 'scope_info', {})
        while sid != 0:
            kind, parent = info.get(sid, (None, None))
            if kind != 'genexpr':
                return False
            sid = parent
        return True

    def pop(self):
        self.scope.pop()

    @property
    def cur(self):
        return self.scope[-1]

    def add_site(self, site, name, kind):
        self.sites[site] = (name, kind, self.cur[1])

    def retag(self, names_sites, kind):
        out = []
        for name, site in names_sites:
            self.add_site(site, name, kind)
            out.append(ast.Assign([ast.Name(name, ast.Store())],
                                  call('T', const(site), ast.Name(name, ast.Load()))))
        return out

    # -- reads
    def visit_Name(self, node):
        if isinstance(node.ctx, ast.Load) and not node.id.startswith(PFX):
            if node.id in HELPER_NAMES:
                return ast.Name(PFX + node.id, ast.Load())
            rid = len(self.reads)
            self.reads[rid] = (node.lineno, node.col_offset, node.id)
            self.read_scope[rid] = self.cur[1]
            if self.comp_depth and self.cur[0] == 'class':
                self.class_comp_reads.add(rid)
            thunk = ast.Lambda(ast.arguments([], [], None, [], [], None, []), ast.Name(node.id, ast.Load()))
            if self.cur[0] == 'class' and self.comp_depth == 0:
                return call('RC', const(rid), const(node.id), ast.Call(ast.Name('locals', ast.Load()), [], []), thunk)
            return call('R', const(rid), thunk)
        return node

    def body(self, stmts):
        out = []
        for s in stmts:
            r = self.visit(s)
            if isinstance(r, list):
                out.extend(r)
            elif r is not None:
                out.append(r)
        return out or [ast.Pass()]

    def target_exprs(self, t):
        """instrument the reads inside attribute / subscript elements of a target (`f(k).attr, y = ...`, `d[k], v`): they are
        evaluated when the element is stored"""
        if isinstance(t, (ast.Tuple, ast.List)):
            for e in t.elts:
                self.target_exprs(e)
        elif isinstance(t, ast.Starred):
            self.target_exprs(t.value)
        elif isinstance(t, ast.Attribute):
            t.value = self.visit(t.value)
        elif isinstance(t, ast.Subscript):
            t.value = self.visit(t.value)
            t.slice = self.visit(t.slice)

    # -- statements
    def visit_Assign(self, node):
        node.value = self.visit(node.value)
        names = []
        for t in node.targets:
            self.target_exprs(t)
            if not all(isinstance(n, ast.Name) for n in target_names(t, [])):
                raise Unsupported('assignment target')
            target_names(t, names)
        if len(node.targets) == 1 and isinstance(node.targets[0], ast.Name):
            n = node.targets[0]
            self.add_site(site_of(n), n.id, 'assign')
            node.value = call('T', const(site_of(n)), node.value)
            return node
        shapes = [shape_of(t) for t in node.targets]
        complex_ = [s for s in shapes if s is not None]
        if complex_:
            if any(s != complex_[0] for s in complex_):
                raise Unsupported('chained targets of different shapes')
            node.value = call('SH', const(_enc_shape(complex_[0])), node.value)
        return [node] + self.retag([(n.id, site_of(n)) for n in names], 'assign')

    def visit_AnnAssign(self, node):
        if not isinstance(node.target, ast.Name):
            raise Unsupported('annotated target')
        for n in ast.walk(node.annotation):
            if isinstance(n, ast.Name):
                self.ann_range[(n.lineno, n.col_offset)] = ((node.lineno, node.col_offset), (node.end_lineno, node.end_col_offset))
        node.annotation = self.visit(node.annotation)
        if node.value is not None:
            self.add_site(site_of(node.target), node.target.id, 'annassign')
            node.value = call('T', const(site_of(node.target)), self.visit(node.value))
        return node

    def visit_AugAssign(self, node):
        raise Unsupported('augmented assignment')

    def visit_Delete(self, node):
        raise Unsupported('del')

    def visit_NamedExpr(self, node):
        node.value = call('T', const(site_of(node.target)), self.visit(node.value))
        # walrus inside a comprehension binds in the enclosing scope
        self.sites[site_of(node.target)] = (node.target.id, 'walrus', self._walrus_scope())
        return node

    def _walrus_scope(self):
        for kind, sid in reversed(self.scope):
            if kind != 'genexpr':
                return sid
        return 0

    def visit_If(self, node):
        node.test = call('C', self.visit(node.test))
        node.body = self.body(node.body)
        node.orelse = self.body(node.orelse) if node.orelse else []
        return node

    def visit_IfExp(self, node):
        node.test = call('C', self.visit(node.test))
        node.body = self.visit(node.body)
        node.orelse = self.visit(node.orelse)
        return node

    def visit_BoolOp(self, node):
        # a and b -> decision-driven short circuit: every operand but the last goes through C
        vals = [self.visit(v) for v in node.values]
        out = vals[-1]
        for v in reversed(vals[:-1]):
            if isinstance(node.op, ast.And):
                out = ast.IfExp(call('C', v), out, const(None))
            else:
                out = ast.IfExp(call('C', v), const(None), out)
        return out

    def visit_While(self, node):
        self.nwhile += 1
        k = self.nwhile
        node.test = call('W', const(k), self.visit(node.test))
        node.body = self.body(node.body)
        node.orelse = self.body(node.orelse) if node.orelse else []
        return [ast.Expr(call('W0', const(k))), node]

    def visit_For(self, node):
        names = target_names(node.target, [])
        if not all(isinstance(n, ast.Name) for n in names):
            raise Unsupported('for target')
        self.target_exprs(node.target)
        node.iter = call('IT', const(_enc_shape(shape_of(node.target))), self.visit(node.iter))
        node.body = self.retag([(n.id, site_of(n)) for n in names], 'for') + self.body(node.body)
        node.orelse = self.body(node.orelse) if node.orelse else []
        return node

    def visit_AsyncFor(self, node):
        raise Unsupported('async for')

    def visit_AsyncWith(self, node):
        raise Unsupported('async with')

    def visit_With(self, node):
        for it in node.items:
            names = target_names(it.optional_vars, []) if it.optional_vars is not None else []
            if not all(isinstance(n, ast.Name) for n in names):
                raise Unsupported('with target')
            if it.optional_vars is not None:
                self.target_exprs(it.optional_vars)
            for n in names:
                self.add_site(site_of(n), n.id, 'with')
            shape = site_shape_of(it.optional_vars) if it.optional_vars is not None else None
            it.context_expr = call('CM', const(shape), self.visit(it.context_expr))
        node.body = self.body(node.body)
        return node

    def visit_Try(self, node):
        node.body = self.body(node.body)
        for h in node.handlers:
            if h.type is not None:
                h.type = call('U', self.visit(h.type))
            pre = self.retag([(h.name, site_of(h))], 'except') if h.name else []
            h.body = pre + self.body(h.body)
        node.orelse = self.body(node.orelse) if node.orelse else []
        node.finalbody = self.body(node.finalbody) if node.finalbody else []
        return node

    def visit_TryStar(self, node):
        raise Unsupported('except*')

    def visit_Match(self, node):
        raise Unsupported('match')

    def _params(self, a):
        return a.posonlyargs + a.args + ([a.vararg] if a.vararg else []) + a.kwonlyargs + ([a.kwarg] if a.kwarg else [])

    def _visit_arguments(self, a):
        a.defaults = [self.visit(d) for d in a.defaults]
        a.kw_defaults = [self.visit(d) if d is not None else d for d in a.kw_defaults]
        for p in self._params(a):
            if p.annotation is not None:
                p.annotation = self.visit(p.annotation)

    def visit_FunctionDef(self, node):
        if getattr(node, 'type_params', None):
            raise Unsupported('type params')
        hdr = ((node.lineno, node.col_offset), (node.body[0].lineno, node.body[0].col_offset))
        anns = [p.annotation for p in self._params(node.args) if p.annotation is not None] + ([node.returns] if node.returns else [])
        for a in anns:
            for n in ast.walk(a):
                if isinstance(n, ast.Name):
                    self.ann_range[(n.lineno, n.col_offset)] = hdr
        node.decorator_list = [self.visit(d) for d in node.decorator_list]
        self._visit_arguments(node.args)
        if node.returns is not None:
            node.returns = self.visit(node.returns)
        params = self._params(node.args)
        line = self.lines[node.lineno - 1]
        col = line.index('def', node.col_offset) + 3
        while line[col] in ' \t':
            col += 1
        defsite = (node.lineno, col)
        self.add_site(defsite, node.name, 'def')
        self.push('function')
        pre = self.retag([(p.arg, site_of(p)) for p in params], 'param')
        decls = [s for s in node.body if isinstance(s, (ast.Global, ast.Nonlocal))]
        rest = [s for s in node.body if not isinstance(s, (ast.Global, ast.Nonlocal))]
        for dcl in decls:
            if isinstance(dcl, ast.Global):
                self.global_decl.setdefault(self.cur[1], set()).update(dcl.names)
            else:
                self.nonlocal_decl.setdefault(self.cur[1], set()).update(dcl.names)
        doc = []
        node.body = decls + doc + pre + self.body(rest)
        mine = self.cur[1]
        for site, (nm, kind, sid) in list(self.sites.items()):
            if sid == mine and nm in self.global_decl.get(mine, ()):
                self.sites[site] = (nm, kind, -2)            # a module-level binding made from inside a function
                self.global_sites.add(site)
            elif sid == mine and nm in self.nonlocal_decl.get(mine, ()):
                self.sites[site] = (nm, kind, -1)            # belongs to some enclosing function
        self.pop()
        return [node, ast.Assign([ast.Name(node.name, ast.Store())],
                                 call('T', const(defsite), ast.Name(node.name, ast.Load())))]

    def visit_AsyncFunctionDef(self, node):
        # header (decorators, defaults, annotations) is evaluated like that of a def; the body only runs when the coroutine
        # is driven, which generated programs never do - await / async for / async with inside stay unsupported
        return self.visit_FunctionDef(node)

    def visit_ClassDef(self, node):
        if getattr(node, 'type_params', None):
            raise Unsupported('type params')
        node.decorator_list = [self.visit(d) for d in node.decorator_list]
        node.bases = [call('U', self.visit(b)) for b in node.bases]
        for k in node.keywords:
            k.value = call('U', self.visit(k.value))
        line = self.lines[node.lineno - 1]
        col = line.index('class', node.col_offset) + 5
        while line[col] in ' \t':
            col += 1
        site = (node.lineno, col)
        self.add_site(site, node.name, 'class')
        self.push('class')
        node.body = self.body(node.body)
        mine = self.cur[1]
        for st_, (nm, kind, sid) in list(self.sites.items()):
            if sid == mine and nm in self.global_decl.get(mine, ()):
                self.sites[st_] = (nm, kind, -2)             # `global D` in a class body: the binding is the module's
                self.global_sites.add(st_)
        self.pop()
        return [node, ast.Assign([ast.Name(node.name, ast.Store())],
                                 call('T', const(site), ast.Name(node.name, ast.Load())))]

    def visit_Lambda(self, node):
        a = node.args
        self._visit_arguments(a)
        params = self._params(a)
        self.push('function')
        for p in params:
            self.add_site(site_of(p), p.arg, 'param')
        body = self.visit(node.body)
        self.pop()
        if params:
            inner = ast.Lambda(ast.arguments([], [ast.arg(p.arg) for p in params], None, [], [], None, []), body)
            node.body = ast.Call(inner, [call('T', const(site_of(p)), ast.Name(p.arg, ast.Load())) for p in params], [])
        else:
            node.body = body
        return node

    def _comp(self, node, elts_attr, is_gen):
        gens = node.generators
        first_iter = self.visit(gens[0].iter)      # evaluated in the enclosing scope
        if is_gen:
            self.push('genexpr')
        self.comp_depth += 1
        for i, g in enumerate(gens):
            if g.is_async:
                raise Unsupported('async comprehension')
            it = first_iter if i == 0 else self.visit(g.iter)
            shape = site_shape_of(g.target)
            for n in target_names(g.target, []):
                self.sites[site_of(n)] = (n.id, 'comp', self._comp_scope(is_gen))
            g.iter = call('ITC', const(shape), it)
            g.ifs = [call('C', self.visit(c)) for c in g.ifs]
        for attr in elts_attr:
            setattr(node, attr, self.visit(getattr(node, attr)))
        self.comp_depth -= 1
        if is_gen:
            self.pop()
        return node

    def _comp_scope(self, is_gen):
        return self.cur[1]

    def visit_ListComp(self, node):
        return self._comp(node, ['elt'], False)

    def visit_SetComp(self, node):
        return self._comp(node, ['elt'], False)

    def visit_DictComp(self, node):
        return self._comp(node, ['key', 'value'], False)

    def visit_GeneratorExp(self, node):
        return self._comp(node, ['elt'], True)

    def visit_Import(self, node):
        pairs = []
        for a in node.names:
            bound = a.asname or a.name.partition('.')[0]
            pairs.append((bound, self._find_ident(node, bound, a)))
        return [node] + self.retag(pairs, 'import')

    def visit_ImportFrom(self, node):
        pairs = []
        for a in node.names:
            if a.name == '*':
                site = self._find_ident(node, '*', a)
                for n in self.star_names(node.module, node.level):
                    pairs.append((n, site))
                out = [node]
                for n, s in pairs:
                    self.sites[s] = ('*', 'star', self.cur[1])
                    out.append(ast.Assign([ast.Name(n, ast.Store())], call('T', const(s), ast.Name(n, ast.Load()))))
                return out
            bound = a.asname or a.name
            pairs.append((bound, self._find_ident(node, bound, a)))
        return [node] + self.retag(pairs, 'import')

    def _find_ident(self, node, ident, alias):
        """Position of the bound identifier of an import alias (3.10+ aliases carry positions)."""
        if ident == '*':
            return (alias.lineno, alias.col_offset)
        if alias.asname:
            # search "as <name>" from the alias start
            l0 = alias.lineno
            for ln in range(l0, (alias.end_lineno or l0) + 1):
                line = self.lines[ln - 1]
                start = alias.col_offset if ln == l0 else 0
                idx = line.find(' ' + alias.asname, start)
                while idx >= 0:
                    before = line[:idx].rstrip()
                    if before.endswith('as') or before == '':
                        return (ln, idx + 1)
                    idx = line.find(' ' + alias.asname, idx + 1)
            raise Unsupported('cannot locate alias %s' % alias.asname)
        return (alias.lineno, alias.col_offset)

    def visit_Global(self, node):
        self.global_decl.setdefault(self.cur[1], set()).update(node.names)
        return node

    def visit_Nonlocal(self, node):
        return node


def _enc_shape(shape):
    """shape -> constant-friendly encoding (None | '*' | tuple)"""
    return shape


class Program(object):
    """An instrumented program ready to be executed under decision prefixes."""

    def __init__(self, src, filename='<dynref>', package=None, modname='dynref_main', star_names=None):
        self.src = src
        tree = ast.parse(src)
        self.ins = Instrument(src, star_names)
        new = ast.Module(self.ins.body(tree.body), [])
        ast.fix_missing_locations(new)
        self.code = compile(new, filename, 'exec')
        self.package = package
        self.modname = modname
        self.filename = filename

    def run(self, prefix, mode):
        rt = Runtime(prefix, mode, lenient=getattr(self, 'lenient', False))
        RUNTIME[0] = rt
        g = {PFX + 'T': rt.T, PFX + 'R': rt.R, PFX + 'RC': rt.RC, PFX + 'C': rt.C, PFX + 'IT': rt.IT,
             PFX + 'ITC': rt.ITC, PFX + 'W': rt.W, PFX + 'W0': rt.W0, PFX + 'U': rt.U, PFX + 'SH': rt.SH,
             PFX + 'CM': rt.CM, PFX + 'risky': rt.risky, PFX + 'use': rt.use,
             '__name__': self.modname, '__package__': self.package, '__file__': self.filename,
             '__builtins__': builtins}
        old_limit = sys.getrecursionlimit()
        try:
            exec(self.code, g)
            rt.finished = 'end'
        except NameError:
            rt.finished = 'NameError'
        except ValueError as e:
            if str(e) not in ('risky', 'gen'):
                raise
            rt.finished = 'ValueError'
        except KeyError as e:
            if e.args != ('gen',):
                raise
            rt.finished = 'KeyError'
        except (TypeError, RecursionError, AttributeError, ImportError) as e:
            rt.finished = type(e).__name__
            rt.error = repr(e)
        finally:
            sys.setrecursionlimit(old_limit)
            RUNTIME[0] = None
        return rt

    def explore(self, mode='abort', cap=300, keep_traces=False):
        """Enumerate decision sequences. Returns dict with per-read results."""
        results = {}     # rid -> set of (outcome, site)
        stack = [[]]
        runs = 0
        exhaustive = True
        endings = {}
        traces = []
        while stack:
            if runs >= cap:
                exhaustive = False
                break
            prefix = stack.pop()
            rt = self.run(prefix, mode)
            runs += 1
            if rt.cut:
                exhaustive = False
            endings[rt.finished] = endings.get(rt.finished, 0) + 1
            if rt.finished in ('TypeError', 'AttributeError', 'RecursionError', 'ImportError'):
                exhaustive = False      # paths behind the abnormal end were not walked
            for rid, oc, site in rt.events:
                results.setdefault(rid, set()).add((oc, site))
            if keep_traces:
                traces.append((rt.order, rt.finished))
            for i in range(len(prefix), len(rt.arities)):
                for alt in range(1, rt.arities[i]):
                    stack.append(prefix + [0] * (i - len(prefix)) + [alt])
        return {'results': results, 'runs': runs, 'exhaustive': exhaustive, 'endings': endings, 'traces': traces}


def star_names_from(paths):
    """Factory for the star_names callback: imports the module for real and lists what `import *` binds."""
    def names(module, level, package=None):
        old = list(sys.path)
        sys.path[:0] = paths
        try:
            m = importlib.import_module(('.' * level) + (module or ''), package) if level else importlib.import_module(module)
        finally:
            sys.path[:] = old
        if hasattr(m, '__all__'):
            return list(m.__all__)
        return [n for n in vars(m) if not n.startswith('_')]
    return names


def selftest():
    """Straight-line family: dynamic sites must equal the textual last assignment."""
    src = 'a = 1\nb = a\na = 2\nc = (a, b)\ndef f(p, q=a):\n    return p, q\nd = f(c)\n'
    p = Program(src)
    res = p.explore('abort')
    by_pos = {p.ins.reads[rid][:2]: res['results'][rid] for rid in res['results']}
    assert by_pos[(2, 4)] == {('ok', (1, 0))}, by_pos
    assert by_pos[(4, 5)] == {('ok', (3, 0))}, by_pos
    assert by_pos[(4, 8)] == {('ok', (2, 0))}, by_pos
    assert by_pos[(5, 11)] == {('ok', (3, 0))}, by_pos
    assert by_pos[(6, 11)] == {('ok', (5, 6))}, by_pos
    assert by_pos[(6, 14)] == {('ok', (5, 9))}, by_pos
    assert by_pos[(7, 4)] == {('ok', (5, 4))}, by_pos
    assert res['exhaustive'] and res['runs'] == 1
    src = 'if c:\n    x = 1\nuse(x)\n'
    res = Program(src).explore('continue')
    assert res['runs'] == 2 and res['exhaustive']
    r = {k: v for k, v in res['results'].items()}
    assert any(v == {('ok', (2, 4)), ('unbound', None)} for v in r.values()), r
    src = 'for i in r:\n    y = i\nelse:\n    z = 1\nwhile c:\n    w = 1\nuse(y, z, w)\n'
    res = Program(src).explore('continue')
    assert res['exhaustive'] and res['runs'] == 9, res['runs']
    return True
