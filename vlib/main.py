"""./check <ID> <quick|thorough> | ./check <ID> --replay <file> | ./check <ID> --selftest"""
import importlib
import json
import os
import sys
import traceback

from . import core


def main(argv):
    if len(argv) < 2:
        sys.stderr.write(__doc__ + '\n')
        return 2
    pid = argv[0].upper()
    try:
        module = importlib.import_module('checks.%s' % pid.lower())
    except Exception:
        sys.stderr.write('HARNESS-ERROR: cannot import check %s\n%s\n' % (pid, traceback.format_exc()))
        return 2
    seed = int(os.environ.get('VERIF_SEED', '1') or '1')

    if argv[1] == '--replay':
        path = argv[2]
        if not os.path.isabs(path):
            path = os.path.join(core.VERIF, path)
        with open(path) as f:
            data = json.load(f)
        case = core.unjson(data['case'])
        try:
            vs = module.replay(case)
        except Exception:
            sys.stderr.write('HARNESS-ERROR: replay failed\n%s\n' % traceback.format_exc())
            return 2
        known = getattr(module, 'KNOWN', {})
        listed = {e['id'] for e in core.load_known(pid) if e.get('status') == 'finding'}
        fresh = []
        for v in vs:
            hit = [fid for fid, pred in known.items() if fid in listed and pred(v)]
            if hit:
                print('KNOWN-FINDING: property=%s %s (%s)' % (pid, hit[0], v['signature']))
            else:
                fresh.append(v)
        vs = fresh
        if vs:
            for v in vs:
                print('VIOLATION property=%s replay=%s' % (pid, os.path.relpath(path, core.VERIF)))
                print('  signature: %s' % v['signature'])
                print('  detail: %s' % str(v['detail'])[:600])
            return 1
        print('replay: property=%s no violation on this tree' % pid)
        return 0

    tier = argv[1]
    if tier not in ('quick', 'thorough'):
        sys.stderr.write('tier must be quick or thorough\n')
        return 2
    tier = os.environ.get('VERIF_TIER_OVERRIDE', tier)
    run = core.Run(module, tier, seed)
    try:
        module.run(run)
    except core.HarnessError:
        run.harness_errors.append(traceback.format_exc())
    except Exception:
        run.harness_errors.append(traceback.format_exc())
    code = core.finish(run)
    print('%s %s seed=%d: evaluations=%d distinct_nontrivial=%d violations=%s wall=%.1fs exit=%d' % (
        pid, tier, seed, run.evaluations, len(run.nontrivial),
        'n/a' if code == 2 else str(code), __import__('time').time() - run.t0, code))
    return code


if __name__ == '__main__':
    sys.exit(main(sys.argv[1:]))
