"""Child of C17: answers a batch of requests three times in this process (new project, new project, same project again) and prints the serialised results.
Run as:  python c17_child.py <batch.json> <prealloc>   (PYTHONHASHSEED set by the parent)"""
import json
import logging
import sys

batch = json.load(open(sys.argv[1]))
junk = [object() for _ in range(int(sys.argv[2]))]      # shifts the addresses of everything allocated afterwards
junk2 = [str(i) * 3 for i in range(int(sys.argv[2]) // 7)]
sys.path.insert(0, batch['repo'])
logging.disable(logging.CRITICAL)
from supp.project import Project
from supp import assistant, linter


def answer(req, project=None):
    project = project or Project(list(req['roots']))
    try:
        if req['kind'] == 'location':
            return ['ok', assistant.location(project, req['src'], tuple(req['pos']), req['filename'])]
        if req['kind'] == 'assist':
            r = assistant.assist(project, req['src'], tuple(req['pos']), req['filename'])
            return ['ok', [r[0], list(r[1])]]
        return ['ok', [list(r[:4]) for r in linter.lint(project, req['src'], req['filename'])]]
    except Exception as e:
        return ['exc', type(e).__name__]


out = []
for req in batch['requests']:
    a = answer(req)
    shared = Project(list(req['roots']))
    b = answer(req, shared)
    c = answer(req, shared)             # the identical request once more on the same project
    out.append([json.dumps(a, sort_keys=True), json.dumps(b, sort_keys=True), json.dumps(c, sort_keys=True)])
json.dump(out, sys.stdout)
