"""Real-file corpus: the installed standard library and the repository's own files."""
import ast
import os
import random
import sysconfig

from . import core

_cache = {}


def stdlib_files():
    if 'stdlib' not in _cache:
        root = sysconfig.get_paths()['stdlib']
        out = []
        for dp, dn, fn in os.walk(root):
            dn[:] = sorted(d for d in dn if d not in ('site-packages', '__pycache__'))
            for f in sorted(fn):
                if f.endswith('.py'):
                    out.append(os.path.join(dp, f))
        _cache['stdlib'] = out
    return _cache['stdlib']


def repo_files():
    out = []
    for sub in ('supp', 'tests'):
        d = os.path.join(core.REPO, sub)
        for f in sorted(os.listdir(d)):
            if f.endswith('.py'):
                out.append(os.path.join(d, f))
    return out


def sample(seed, n, include_repo=True, max_bytes=None):
    rnd = random.Random(seed)
    files = list(stdlib_files())
    if max_bytes:
        files = [f for f in files if os.path.getsize(f) <= max_bytes]
    rnd.shuffle(files)
    out = files[:n]
    if include_repo:
        out = repo_files() + out
    return out


def read(path):
    try:
        with open(path, encoding='utf-8') as f:
            return f.read()
    except (UnicodeDecodeError, OSError):
        return None


OUT_OF_DOMAIN = tuple(getattr(ast, n) for n in ('Match', 'TryStar', 'TypeAlias') if hasattr(ast, n))


def parse_in_domain(src, path='<corpus>'):
    """-> (tree, reason). tree is None when the file does not parse or uses syntax outside the property domains."""
    try:
        tree = ast.parse(src, path)
    except (SyntaxError, ValueError, RecursionError, MemoryError) as e:
        return None, 'unparseable:' + type(e).__name__
    for n in ast.walk(tree):
        if isinstance(n, OUT_OF_DOMAIN):
            return None, 'syntax-outside-domain:' + type(n).__name__
        if getattr(n, 'type_params', None):
            return None, 'syntax-outside-domain:type_params'
    return tree, None


def shards(items, n):
    return [items[i::n] for i in range(n)]
