"""Layout-only printer (token level) used by C13 and C11: re-emits a source with different line breaks,
indentation unit, `;`-joined simple statements, one-line compound statements, blank lines, comments and
inter-token spacing.  A variant is only used if it parses to an identical AST (checked by the caller)."""
import ast
import io
import tokenize

COMPOUND = {'if', 'for', 'while', 'try', 'with', 'def', 'class', 'async', 'else', 'elif', 'except', 'finally', 'match', 'case', '@'}


def logical_lines(src):
    toks = list(tokenize.generate_tokens(io.StringIO(src).readline))
    lines = []
    cur = []
    lvl = 0
    cur_lvl = 0
    for t in toks:
        if t.type == tokenize.INDENT:
            lvl += 1
        elif t.type == tokenize.DEDENT:
            lvl -= 1
        elif t.type in (tokenize.NL, tokenize.COMMENT, tokenize.ENDMARKER):
            pass
        elif t.type == tokenize.NEWLINE:
            if cur:
                lines.append((cur_lvl, cur))
            cur = []
        else:
            if not cur:
                cur_lvl = lvl
            cur.append(t)
    if cur:
        lines.append((cur_lvl, cur))
    return lines


def relayout(src, rnd, stats=None):
    """rnd: random.Random-like (random(), choice(), randint()). stats: dict collecting which transformations fired."""
    stats = stats if stats is not None else {}
    lines = logical_lines(src)
    unit = rnd.choice([1, 2, 3, 4, 8])
    tab = rnd.random() < 0.15

    def indent(lvl):
        return ('\t' * lvl) if tab else ' ' * (lvl * unit)
    res = []
    k = 0
    while k < len(lines):
        lvl, ts = lines[k]
        text = emit(ts, rnd, lvl * unit, stats)
        first = ts[0].string
        simple = first not in COMPOUND
        while (simple and k + 1 < len(lines) and lines[k + 1][0] == lvl and lines[k + 1][1][0].string not in COMPOUND
               and rnd.random() < 0.3):
            k += 1
            text += rnd.choice(['; ', ';', ' ;  ']) + emit(lines[k][1], rnd, lvl * unit, stats)
            stats['joined'] = stats.get('joined', 0) + 1
        if (not simple and ts[-1].string == ':' and first != '@' and k + 1 < len(lines) and lines[k + 1][0] == lvl + 1
                and lines[k + 1][1][0].string not in COMPOUND and (k + 2 >= len(lines) or lines[k + 2][0] <= lvl)
                and rnd.random() < 0.4):
            k += 1
            text += ' ' + emit(lines[k][1], rnd, lvl * unit, stats)
            stats['oneliner'] = stats.get('oneliner', 0) + 1
        if rnd.random() < 0.15:
            res.append(rnd.choice(['', '', '\x0c']))      # blank line or a page break (form feed): both are layout only
            if res[-1]:
                stats['formfeed'] = stats.get('formfeed', 0) + 1
        # comments are layout: plain ones, ones that mention identifiers of the program (a text search for a name must not stop in
        # them) and ones that look like type comments in places where the type-comment grammar has none
        if rnd.random() < 0.1:
            res.append(indent(lvl) + rnd.choice(['# c', '# c', '# type: int', '# ' + _some_name(ts, rnd) + ' is set here', '# type: ' + _some_name(ts, rnd)]))
            stats['comment-line'] = stats.get('comment-line', 0) + 1
        trail = ''
        if rnd.random() < 0.12:
            trail = rnd.choice(['', '  # t', '  # type: int', '  # type: (int) -> str', '  # ' + _some_name(ts, rnd), '  # noqa: ' + _some_name(ts, rnd) + ' unused'])
        res.append(indent(lvl) + text + trail)
        k += 1
    if rnd.random() < 0.08:
        stats['crlf'] = 1
        return '\r\n'.join(res) + '\r\n'
    return '\n'.join(res) + '\n'


def _some_name(ts, rnd):
    names = [t.string for t in ts if t.type == tokenize.NAME and len(t.string) > 1]
    return rnd.choice(names) if names else 'x'


def emit(ts, rnd, base_indent, stats):
    parts = []
    depth = 0
    prev = None
    fdepth = 0
    FS = getattr(tokenize, 'FSTRING_START', -1)
    FM = getattr(tokenize, 'FSTRING_MIDDLE', -1)
    FE = getattr(tokenize, 'FSTRING_END', -1)
    for t in ts:
        s = t.string
        if prev is not None:
            adjacent = (prev.end == t.start)
            sep = '' if adjacent else ' '
            if (depth > 0 and fdepth == 0 and rnd.random() < 0.15 and t.type != FM and prev.type not in (FS, FM)):
                # inside brackets the continuation may start anywhere, also left of the statement's own indentation
                sep = '\n' + ' ' * (rnd.randint(0, base_indent + 12) if rnd.random() < 0.3 else base_indent + rnd.randint(0, 12))
                if rnd.random() < 0.15 and s not in ('.',) and prev.string not in ('.',):
                    # a comment inside the brackets, before the break: it may name identifiers or look like a type comment
                    sep = rnd.choice(['  # ' + _some_name(ts, rnd) + ' here', '  # type: float', ' # ' + _some_name(ts, rnd)]) + sep
                stats['broken'] = stats.get('broken', 0) + 1
            elif not adjacent and fdepth == 0 and rnd.random() < 0.1:
                sep = '  '
            parts.append(sep)
        if t.type == tokenize.OP and s in '([{':
            depth += 1
        elif t.type == tokenize.OP and s in ')]}':
            depth -= 1
        if t.type == FS:
            fdepth += 1
        elif t.type == FE:
            fdepth -= 1
        parts.append(s)
        prev = t
    return ''.join(parts)


def same_ast(a, b):
    try:
        return ast.dump(ast.parse(a)) == ast.dump(ast.parse(b))
    except (SyntaxError, ValueError, RecursionError):
        return False


def name_token_ordinals(src):
    """{(line, col): ordinal} over NAME tokens and `*` operators: invariant under layout-only changes."""
    order = {}
    i = 0
    for t in tokenize.generate_tokens(io.StringIO(src).readline):
        if t.type == tokenize.NAME or (t.type == tokenize.OP and t.string == '*'):
            order[t.start] = i
            i += 1
    return order


def name_token_strings(src):
    """the NAME / `*` token strings in order: two layouts of one program must agree on this sequence for NAME-token
    ordinals to identify bindings across them (ast.unparse may reorder call arguments: f(k=1, *x) -> f(*x, k=1))"""
    out = []
    for t in tokenize.generate_tokens(io.StringIO(src).readline):
        if t.type == tokenize.NAME or (t.type == tokenize.OP and t.string == '*'):
            out.append(t.string)
    return out
