"""Hypothesis program generator (construction, not rejection). See DESIGN.md 3.2.

programs(profile) -> strategy of dicts {'src': str, 'features': [...], 'package': bool}

profiles
  'c01'  full grammar (break/continue/return/raise anywhere, risky() anywhere, bare except)
  'c02'  structured: no break/continue; raise/risky only as first or last statement of a try body whose
         handlers catch ValueError; comprehensions do not read names rebound by the enclosing statement
  'c03'  c02 + comprehension variables / except names never read after their construct, a function's own
         name not read in its decorators/defaults; smaller programs (the execution space must be enumerable)

Identifier pool is tiny so that shadowing and rebinding are frequent.  `use(...)` and `risky()` are
harness helpers (plain calls in the text; supp sees two undefined names, which the checks ignore).
"""
from hypothesis import strategies as st

POOL = ['a', 'b', 'c', 'd', 'e']
COMP_VARS = ['i', 'j']
EXC_NAMES = ['ex', 'ey']
FUNCS = ['f', 'g', 'h']
CLASSES = ['K', 'L']
BUILTINS = ['len', 'print', 'ValueError', 'object']
FIXTURE_IMPORTS = [
    ('import fx_mod', ['fx_mod']),
    ('import fx_pkg.sub', ['fx_pkg']),
    ('import fx_pkg.sub as fsub', ['fsub']),
    ('import fx_mod as {n}', None),
    ('from fx_mod import fa', ['fa']),
    ('from fx_mod import fa as {n}', None),
    ('from fx_mod import fa, fb as {n}', None),
    ('from fx_pkg import sub', ['sub']),
    ('from fx_pkg.sub import sa as {n}', None),
    ('import os', ['os']),
    ('import os.path', ['os']),
    ('import json as {n}', None),
    ('from os import path as {n}', None),
    ('from collections import OrderedDict', ['OrderedDict']),
]
STAR_IMPORTS = ['from fx_star import *', 'from fx_pkg.sub import *', 'from fx_glob import *', 'from fx_all import *']
# fx_all lists its exports in __all__ (a literal that is extended afterwards; underscore names included); the stdlib modules
# build __all__ the same way (os: literal + extend + append under if / try; threading: literal)
STAR_NAMES = {'from fx_star import *': ['s1', 's2', 'a'], 'from fx_pkg.sub import *': ['sa', 'sb'],
              'from fx_glob import *': ['GLEVEL', 'gflag', 'gplain'],
              'from fx_all import *': ['_priv_e', 'pub_d', 'pub_a', '_priv_b', 'pub_c'],
              'from os import *': ['getcwd', '_exit', 'sep', 'curdir'],
              'from threading import *': ['Lock', 'Thread', 'local']}
ALL_STAR_NAMES = {n for v in STAR_NAMES.values() for n in v}
REL_IMPORTS = [('from . import sub', ['sub']), ('from .sub import sa as {n}', None), ('from . import rel as {n}', None)]
# a module of the nested package fx_pkg.inner: relative imports of level 1 and 2 from one directory
REL_IMPORTS2 = [('from . import leaf', ['leaf']), ('from .leaf import la as {n}', None), ('from .. import sub', ['sub']),
                ('from ..sub import sa as {n}', None), ('from .. import rel as {n}', None), ('from ..rel import rel_attr as {n}', None)]
REL_STAR = {1: {'from .sub import *': ['sa', 'sb']},
            2: {'from ..sub import *': ['sa', 'sb'], 'from .leaf import *': ['la', 'lb']}}
for _v in REL_STAR.values():
    for _ns in _v.values():
        ALL_STAR_NAMES.update(_ns)


class Ctx(object):
    def __init__(self, profile, size):
        self.profile = profile
        self.size = size            # remaining statement budget (mutable via list)
        self.features = set()


class B(object):
    """Statement builder bound to a Hypothesis draw function."""

    def __init__(self, draw, profile, budget, package):
        self.draw = draw
        self.profile = profile
        self.budget = budget
        self.package = package
        self.features = set()
        self.funcs = {}         # name -> (npos_required, npos_max, kwonly_required names)
        self.classes = []
        self.decisions = 0
        self.max_decisions = {'c01': 9, 'c02': 8, 'c03': 6}[profile]
        self.seen_names = set()

    # ---- helpers
    def exc_name(self):
        self.exc_counter = getattr(self, 'exc_counter', 0) + 1
        return 'ex%d' % self.exc_counter if self.profile != 'c01' else EXC_NAMES[self.exc_counter % 2]

    def pick(self, seq):
        return self.draw(st.sampled_from(list(seq)))

    def chance(self, p):
        return self.draw(st.integers(0, 99)) < p

    def name(self):
        n = self.pick(POOL)
        self.seen_names.add(n)
        return n

    def readable(self, ctx):
        """A name to read: mostly pool names, sometimes functions/classes/builtins/never-bound."""
        k = self.draw(st.integers(0, 19))
        bound = [n for n in ctx.get('bound', ()) if n in POOL or n[:1] in 'ijw' or n[:2] == 'ex' or n == 'self' or n in ALL_STAR_NAMES
                 or (n[:1] == 'g' and n[1:].isdigit())]
        if k < 16 and bound:
            return self.pick(bound)
        if k < 13:
            return self.pick(POOL)
        if k < 15 and self.funcs:
            return self.pick(sorted(self.funcs))
        if k < 16 and self.classes:
            return self.pick(self.classes)
        if k < 18:
            return self.pick(BUILTINS)
        if k < 19 and ctx.get('extra_reads'):
            return self.pick(ctx['extra_reads'])
        return self.pick(POOL)

    def dec(self, n=1):
        self.decisions += n

    def room(self):
        return self.decisions < self.max_decisions

    # ---- expressions
    def expr(self, ctx, depth=0, forbid=()):
        k = self.draw(st.integers(0, 23 if depth < 2 else 9))
        rd = lambda: self._read(ctx, forbid)
        if k < 6:
            return rd()
        if k < 8:
            return str(self.draw(st.integers(0, 9)))
        if k < 10:
            return 'use(%s)' % ', '.join(self.expr(ctx, depth + 1, forbid) for _ in range(self.draw(st.integers(0, 2))))
        if k == 10:
            return '(%s, %s)' % (self.expr(ctx, depth + 1, forbid), self.expr(ctx, depth + 1, forbid))
        if k == 11:
            fb = forbid if (ctx.get('in_comp') or ctx.get('hard_forbid')) else ()
            return '%s.attr' % self.pick([n for n in ctx.get('bound', ()) if n in POOL and n not in fb] or [n for n in POOL if n not in fb] or ['print'])
        if k == 12 and self.funcs:
            return self.call_expr(ctx, depth, forbid)
        if k == 13 and self.classes:
            self.features.add('instantiate')
            return '%s()' % self.pick(self.classes)
        if k == 14 and self.room():
            self.dec()
            self.features.add('ternary')
            c3 = dict(ctx, no_walrus=True) if self.profile == 'c03' else ctx
            return '(%s if %s else %s)' % (self.expr(c3, depth + 1, forbid), rd(), self.expr(c3, depth + 1, forbid))
        if k == 15 and self.room():
            self.dec()
            self.features.add('boolop')
            c3 = dict(ctx, no_walrus=True) if self.profile == 'c03' else ctx
            return '(%s %s %s)' % (self.expr(ctx, depth + 1, forbid), self.pick(['and', 'or']), self.expr(c3, depth + 1, forbid))
        if k == 16 and not getattr(self, 'no_walrus_stmt', False) and not ctx.get('no_walrus') and not ctx.get('in_class_direct') and not (
                self.profile != 'c01' and getattr(self, 'stmt_has_comp', False)):
            self.features.add('walrus')
            self.stmt_has_walrus = True
            n = self.name()
            if n in forbid or n in ctx.get('globals_declared', ()) and False:
                return rd()
            e = '(%s := %s)' % (n, self.expr(dict(ctx, no_walrus=True), depth + 1, forbid))
            if not ctx.get('in_lambda'):
                self.bind(ctx, [n])
            return e
        if k == 17:
            return self.lambda_expr(ctx, depth, forbid)
        if k in (18, 19, 20) and self.room() and not (self.profile != 'c01' and getattr(self, 'stmt_has_walrus', False)):
            self.stmt_has_comp = True
            return self.comp_expr(ctx, depth, forbid)
        if k == 21:
            return '%s + %s' % (rd(), self.expr(ctx, depth + 1, forbid))
        if k == 22:
            self.features.add('call-keyword-before-star')
            return 'use(kw=%s, *%s)' % (self.expr(ctx, depth + 1, forbid), rd())
        return rd()

    def _read(self, ctx, forbid):
        # `forbid` = names the enclosing statement rebinds: the properties only exclude reading them from INSIDE a
        # comprehension (and a function's own name in its header, marked hard_forbid); elsewhere `a = use(a)` is in domain
        if not (ctx.get('in_comp') or ctx.get('hard_forbid')):
            forbid = ()
        for _ in range(4):
            n = self.readable(ctx)
            if n not in forbid:
                return n
        return '0'

    def call_expr(self, ctx, depth, forbid):
        f = self.pick(sorted(self.funcs))
        lo, hi, kwreq, poskw = self.funcs[f]
        n = self.draw(st.integers(lo, hi))
        args = [self.expr(ctx, depth + 1, forbid) for _ in range(n)]
        for kname in kwreq:
            args.append('%s=%s' % (kname, self.expr(ctx, depth + 1, forbid)))
        self.features.add('call')
        return '%s(%s)' % (f, ', '.join(args))

    def lambda_expr(self, ctx, depth, forbid):
        self.features.add('lambda')
        params = []
        names = []
        np_ = self.draw(st.integers(0, 2))
        for i in range(np_):
            n = self.pick(POOL)
            if n in names:
                continue
            names.append(n)
        text = []
        for i, n in enumerate(names):
            if self.chance(30):
                text.append('%s=%s' % (n, self.expr(ctx, depth + 1, forbid)))
                self.features.add('lambda-default')
                # all following need defaults too
                for m in names[i + 1:]:
                    text.append('%s=%s' % (m, self.expr(ctx, depth + 1, forbid)))
                break
            text.append(n)
        if self.chance(15):
            text.append('*va')
        elif self.chance(15) and names:
            kn = self.pick([p for p in POOL if p not in names] or ['kk'])
            text.append('*')
            if self.chance(50):
                text.append(kn)                 # required keyword-only parameter: kw_defaults holds None for it
                self.features.add('lambda-kwonly-required')
            else:
                text.append('%s=%s' % (kn, self.expr(ctx, depth + 1, forbid)))
            self.features.add('lambda-kwonly')
        inner = dict(ctx, no_walrus=True, in_class_direct=False, in_lambda=True, bound=list(ctx.get('bound', [])) + names)
        body = self.expr(inner, depth + 1, ())
        return '(lambda %s: %s)' % (', '.join(text), body)

    def comp_expr(self, ctx, depth, forbid):
        if (self.profile in ('c01', 'c02') and self.room() and self.chance(12) and not ctx.get('in_class_direct') and not ctx.get('no_walrus')
                and not ctx.get('in_lambda') and not ctx.get('in_comp') and not (self.profile != 'c01' and getattr(self, 'stmt_has_walrus', False))):
            # a comprehension nested in the element / a condition / an iterable of another one, binding a name (walrus) that is
            # read after the statement
            self.dec()
            self.features.add('walrus-in-nested-comp')
            self.stmt_has_walrus = True
            inner = dict(ctx, no_walrus=True, in_comp=True)
            wn = self.pick(['w1', 'w2'])
            fb = tuple(forbid) + (wn,)
            it1 = self.expr(inner, depth + 1, fb)
            it2 = self.expr(inner, depth + 1, fb)
            val = self._read(inner, fb)
            form = self.pick(['[[(%(w)s := n2) for n2 in %(b)s] for n1 in %(a)s]', '[n1 for n1 in %(a)s if use([(%(w)s := n1) for n2 in %(b)s])]',
                              '[n1 for n1 in [(%(w)s := %(v)s) for n2 in %(a)s]]', '{n1: [(%(w)s := n2) for n2 in %(b)s] for n1 in %(a)s}',
                              '[n1 for n1 in %(a)s for n3 in [(%(w)s := n1) for n2 in %(b)s]]', 'use(((%(w)s := n2) for n2 in %(b)s) for n1 in %(a)s)'])
            self.bind(ctx, [wn] * 3)
            return form % {'w': wn, 'a': it1, 'b': it2, 'v': val}
        kind = self.pick(['list', 'set', 'dict', 'gen', 'list'])
        self.features.add('comp-' + kind)
        self.dec()
        nfor = 1 if not self.room() or self.chance(75) else 2
        inner = dict(ctx, no_walrus=True, in_comp=True)
        self.comp_nest = getattr(self, 'comp_nest', 0) + 1
        COMP_VARS = ['i%d' % self.comp_nest, 'j%d' % self.comp_nest] if self.profile != 'c01' else ['i', 'j']
        clauses = []
        vars_ = []
        walrus_names = []
        extra = list(ctx.get('extra_reads', []))
        for i in range(nfor):
            if self.chance(25) and len(COMP_VARS) >= 2 and not vars_:
                tgt = '%s, %s' % (COMP_VARS[0], COMP_VARS[1])
                new = COMP_VARS[:2]
                self.features.add('comp-tuple-target')
            else:
                v = COMP_VARS[i % 2] if self.profile != 'c01' or self.chance(70) else self.pick(POOL)
                if v in forbid or v in vars_:
                    v = COMP_VARS[i % 2]
                tgt = v
                new = [v]
            if i:
                self.dec()
            it = self.expr(dict(inner, extra_reads=extra + vars_), depth + 1, forbid)
            vars_.extend(new)
            c = 'for %s in %s' % (tgt, it)
            if self.chance(35) and self.room():
                self.dec()
                # a name that only this walrus binds (w1/w2) or a pool name (c01 only)
                wn = self.pick(['w1', 'w2']) if self.profile != 'c01' or self.chance(60) else self.pick(POOL)
                if self.profile == 'c03':
                    # c03: a name of its own per comprehension, read only inside it (what it is after the comprehension depends on
                    # whether any trip happened, which supp does not model: kept out of this profile)
                    self.wcount = getattr(self, 'wcount', 0) + 1
                    wn = 'w%d' % (10 + self.wcount)
                cond = self.expr(dict(inner, extra_reads=extra + vars_, bound=[b for b in ctx.get('bound', []) if b != wn]),
                                 depth + 1, tuple(forbid) + (wn,))
                if (self.chance(35) and not ctx.get('in_class_direct') and not ctx.get('no_walrus') and wn not in vars_
                        and wn not in COMP_VARS and wn not in forbid and not ctx.get('in_lambda')):
                    cond = '(%s := %s)' % (wn, cond)
                    self.features.add('walrus-in-comp')
                    walrus_names.append(wn)
                c += ' if %s' % cond
                self.features.add('comp-if')
            clauses.append(c)
        ictx = dict(inner, extra_reads=extra + vars_, bound=list(ctx.get('bound', [])) + vars_ + vars_)
        if (kind == 'gen' and self.profile in ('c01', 'c02') and self.chance(30) and not ctx.get('in_class_direct')
                and not ctx.get('no_walrus') and not ctx.get('in_lambda')):
            # any((m := f(x)) for x in xs): the canonical walrus-in-generator idiom
            wn = self.pick(['w1', 'w2'])
            elt = '(%s := %s)' % (wn, self._read(ictx, tuple(forbid) + (wn,)))
            walrus_names.append(wn)
            self.features.add('walrus-in-comp')
        elif kind == 'set':
            elt = '(%s, %s)' % (self.pick(vars_), self._read(ictx, forbid))     # must stay hashable
        else:
            elt = self.expr(ictx, depth + 1, forbid)
            if self.chance(60):
                elt = '(%s, %s)' % (self.pick(vars_), elt)
        if walrus_names and clauses and ':=' in clauses[-1] and self.chance(60):
            # the element reads what a condition of the last clause has just bound
            last = clauses[-1].split(':=')[0].split('(')[-1].strip()
            if last in walrus_names:
                elt = '(%s, %s)' % (last, elt)
                self.features.add('comp-element-reads-condition-walrus')
        self.comp_nest -= 1
        if walrus_names and self.profile != 'c03':
            self.bind(ctx, walrus_names * 3)
        if kind == 'dict':
            return '{%s: %s %s}' % (self.pick(vars_), elt, ' '.join(clauses))
        o, c = {'list': '[]', 'set': '{}', 'gen': '()'}[kind]
        text = '%s%s %s%s' % (o, elt, ' '.join(clauses), c)
        if kind == 'gen':
            return 'use(*%s)' % text       # consume it, otherwise the body never runs
        return text

    # ---- targets
    def target(self, ctx, allow_star=True):
        k = self.draw(st.integers(0, 9))
        if self.chance(7) and ctx.get('bound'):
            # an unpacking target with an attribute / subscript element: it binds nothing itself, but what stands inside it is READ
            # (the index or the receiver), possibly nowhere else
            a = self.name()
            cands = [n for n in ctx.get('bound', []) if n != a and n in POOL]
            if not cands:
                return a, [a]
            # (the element is stored after the value was evaluated and after the elements left of it: it must not read a name
            # this very statement binds - evaluation order against text order is the family of the listed walrus findings)
            r = self.pick(cands)
            self.no_walrus_stmt = True
            self.features.add('target-with-attribute-or-subscript-element')
            form = self.pick(['use(%(r)s).q, %(a)s', '%(a)s, use(%(r)s).q', 'use()[%(r)s], %(a)s', '%(a)s, (use(1)[%(r)s], %(r)s.z)', '[%(r)s.q, %(a)s]'])
            return form % {'a': a, 'r': r}, [a]
        if k < 6:
            n = self.name()
            return n, [n]
        if k < 8:
            a, b = self.name(), self.name()
            if a == b:
                return a, [a]
            self.features.add('tuple-target')
            return '%s, %s' % (a, b), [a, b]
        if k == 8:
            ns = []
            for _ in range(3):
                n = self.name()
                if n not in ns:
                    ns.append(n)
            if len(ns) < 3:
                return ns[0], [ns[0]]
            self.features.add('nested-target')
            return '%s, (%s, %s)' % tuple(ns), ns
        if allow_star:
            a, b = self.name(), self.name()
            if a == b:
                return a, [a]
            c = self.name()
            if c not in (a, b) and self.draw(st.booleans()):
                self.features.add('starred-sequence-target')
                return self.draw(st.sampled_from(['%s, *(%s, %s)', '*[%s, %s], %s', '*(%s, %s), %s'])) % (a, b, c), [a, b, c]
            self.features.add('starred-target')
            return '%s, *%s' % (a, b), [a, b]
        n = self.name()
        return n, [n]

    # ---- statements
    def block(self, ctx, ind, depth, min_stmts=1, max_stmts=3):
        lines = []
        n = self.draw(st.integers(min_stmts, max_stmts))
        prev_simple = False
        for _ in range(n):
            if self.budget[0] <= 0:
                break
            new = self.stmt(ctx, ind, depth)
            simple = len(new) == 1 and not new[0].rstrip().endswith(':') and not new[0].lstrip().startswith(('@', 'global ', 'nonlocal ', 'import ', 'from '))
            if simple and prev_simple and self.chance(20):
                # two simple statements on one physical line: a binding between two reads of the same line
                lines[-1] = lines[-1] + '; ' + new[0].lstrip()
                self.features.add('statements-joined')
            else:
                lines.extend(new)
            prev_simple = simple and len(new) == 1
        if not lines:
            lines.append(ind + 'pass')
        return lines

    def stmt(self, ctx, ind, depth):
        self.budget[0] -= 1
        self.stmt_has_comp = False
        self.stmt_has_walrus = False
        self.no_walrus_stmt = False
        in_func = ctx.get('in_func', False)
        in_loop = ctx.get('in_loop', False)
        choices = ['assign'] * 6 + ['use'] * 4 + ['annassign', 'chain', 'lam']
        if depth < 3 and self.room():
            choices += ['if'] * 3 + ['for'] * 2 + ['while', 'try', 'try', 'with']
        if depth < 2:
            choices += ['def'] * 5 + ['class'] * 2
        if depth < 3:
            choices += ['import']
        if not in_func and not ctx.get('in_class') and depth == 0 and not ctx.get('in_block'):
            choices += ['star']
        if in_func:
            choices += ['return']
            if self.funcs:
                choices += ['call']
        if self.profile == 'c01':
            if in_loop:
                choices += ['break', 'continue']
            if self.chance(35):
                choices += ['raise', 'risky']
        elif self.funcs:
            choices += ['call']
        if self.profile == 'c01' and not getattr(self, 'rebound_builtin', False):
            choices += ['rebuiltin']
        if self.profile == 'c03' and not ctx.get('in_class_direct') and self.room():
            choices += ['neverbound']
        kind = self.pick(choices)
        m = getattr(self, 's_' + kind)
        return m(ctx, ind, depth)

    def s_neverbound(self, ctx, ind, depth):
        # a read of a name nothing binds anywhere, as the FIRST statement of a try body whose handlers catch the NameError:
        # unbound on every path, so the read must be reported, whatever surrounds it
        self.dec()
        self.nb_count = getattr(self, 'nb_count', 0) + 1
        nb = 'nb%d' % self.nb_count
        self.features.add('never-bound-read-in-try-body')
        handler = self.pick(['except Exception:', 'except:', 'except BaseException:', 'except NameError:', 'except (KeyError, NameError):',
                             'except (ValueError, Exception):'])
        # (no binding form here: the path-mode oracle lets evaluation continue past an unbound read, CPython does not)
        first = self.pick(['use(%s)' % nb, 'use(use(%s), 1)' % nb, 'use(use(%s))' % nb, 'if %s: pass' % nb])
        out = [ind + 'try:', ind + '    ' + first]
        if self.chance(40):
            out.append(ind + '    ' + 'use(%s)' % self._read(ctx, ()))
        out += [ind + handler, ind + '    ' + self.pick(['pass', 'use(%s)' % self._read(ctx, ())])]
        return out

    def s_rebuiltin(self, ctx, ind, depth):
        # a builtin that this body rebinds further down: until then a module or class body finds the builtin, a function
        # body raises UnboundLocalError (the execution oracle knows which)
        self.rebound_builtin = True
        self.features.add('builtin-rebound-after-read')
        b = self.pick(['max', 'sorted', 'repr'])
        return [ind + 'use(%s)' % b, ind + '%s = %s' % (b, self.expr(ctx, 1))]

    def bind(self, ctx, names):
        b = ctx.setdefault('bound', [])
        for n in names:
            if n not in b:
                b.append(n)

    def s_assign(self, ctx, ind, depth):
        t, names = self.target(ctx)
        forbid = tuple(names) if self.profile != 'c01' else ()
        line = ind + '%s = %s' % (t, self._expr_nc(ctx, forbid))
        self.bind(ctx, names)
        return [line]

    def _expr_nc(self, ctx, forbid):
        """expression whose comprehensions do not read `forbid` (c02/c03 restriction)"""
        return self.expr(ctx, 0, forbid)

    def s_chain(self, ctx, ind, depth):
        a, b = self.name(), self.name()
        self.features.add('chained-assign')
        forbid = (a, b) if self.profile != 'c01' else ()
        line = ind + '%s = %s = %s' % (a, b, self._expr_nc(ctx, forbid))
        self.bind(ctx, [a, b])
        return [line]

    def s_annassign(self, ctx, ind, depth):
        n = self.name()
        if n in ctx.get('declared', ()):
            return self.s_assign(ctx, ind, depth)
        self.features.add('annassign')
        if self.chance(25):
            return [ind + '%s: %s' % (n, self._read(ctx, ()))]
        forbid = (n,) if self.profile != 'c01' else ()
        line = ind + '%s: %s = %s' % (n, self._read(ctx, ()), self._expr_nc(ctx, forbid))
        self.bind(ctx, [n])
        return [line]

    def s_lam(self, ctx, ind, depth):
        n = self.name()
        forbid = (n,) if self.profile != 'c01' else ()
        line = ind + '%s = %s' % (n, self.lambda_expr(ctx, 0, forbid))
        self.bind(ctx, [n])
        return [line]

    def s_use(self, ctx, ind, depth):
        args = [self._read(ctx, ()) for _ in range(self.draw(st.integers(1, 3)))]
        if self.chance(30):
            args.append(self.expr(ctx, 1))
        return [ind + 'use(%s)' % ', '.join(args)]

    def s_call(self, ctx, ind, depth):
        if not self.funcs:
            return self.s_use(ctx, ind, depth)
        if self.chance(50):
            n = self.name()
            line = ind + '%s = %s' % (n, self.call_expr(ctx, 0, (n,) if self.profile != 'c01' else ()))
            self.bind(ctx, [n])
            return [line]
        return [ind + self.call_expr(ctx, 0, ())]

    def s_deepchain(self, ctx, ind):
        """a read many single-predecessor regions deep (nested ifs, or the last arm of a long if / elif chain inside an else), the
        name bound at the two outermost levels: the nearer binding is the one that is read"""
        self.features.add('deep-region-chain')
        v = self.name()
        cond = self._read(ctx, (v,))
        n = self.draw(st.integers(11, 17))
        lines = [ind + '%s = %s' % (v, self.expr(ctx, 1, (v,)))]
        self.bind(ctx, [v])
        if self.chance(50):
            lines.append(ind + 'if %s:' % cond)
            lines.append(ind + '    %s = use(%s)' % (v, cond))
            cur = ind + '    '
            for i in range(n):
                lines.append(cur + 'if %s:' % cond)
                cur += '    '
            lines.append(cur + 'use(%s)' % v)
        else:
            lines.append(ind + 'if %s:' % cond)
            lines.append(ind + '    pass')
            lines.append(ind + 'else:')
            lines.append(ind + '    %s = use(%s)' % (v, cond))
            lines.append(ind + '    if use(0):')
            lines.append(ind + '        pass')
            for i in range(n):
                lines.append(ind + '    elif use(%d):' % (i + 1))
                lines.append(ind + '        ' + ('pass' if i < n - 1 else 'use(%s)' % v))
        return lines

    def s_if(self, ctx, ind, depth):
        if depth == 0 and not ctx.get('in_class_direct') and self.chance(6) and self.room():
            self.dec(2)
            return self.s_deepchain(ctx, ind)
        self.dec()
        self.features.add('if')
        c2 = dict(ctx, in_block=True)
        lines = [ind + 'if %s:' % self.expr(ctx, 1)]
        lines += self.block(c2, ind + '    ', depth + 1)
        k = self.draw(st.integers(0, 9))
        if k < 3 and self.room():
            self.dec()
            self.features.add('elif')
            lines.append(ind + 'elif %s:' % self.expr(ctx, 1))
            lines += self.block(c2, ind + '    ', depth + 1)
        if k < 6:
            self.features.add('else')
            lines.append(ind + 'else:')
            lines += self.block(c2, ind + '    ', depth + 1)
        return lines

    def s_for(self, ctx, ind, depth):
        self.dec(2)
        self.features.add('for')
        if ctx.get('in_loop'):
            self.features.add('nested-loop')
        t, names = self.target(ctx)
        lines = [ind + 'for %s in %s:' % (t, self.expr(ctx, 1, tuple(names) if self.profile != 'c01' else ()))]
        self.bind(ctx, names)
        c2 = dict(ctx, in_loop=True, in_block=True)
        lines += self.block(c2, ind + '    ', depth + 1, 1, 3)
        if self.chance(35):
            self.features.add('for-else')
            lines.append(ind + 'else:')
            lines += self.block(dict(ctx, in_block=True), ind + '    ', depth + 1, 1, 2)
        return lines

    def s_while(self, ctx, ind, depth):
        self.dec(2)
        self.features.add('while')
        if ctx.get('in_loop'):
            self.features.add('nested-loop')
        lines = [ind + 'while %s:' % self.expr(ctx, 1)]
        c2 = dict(ctx, in_loop=True, in_block=True)
        lines += self.block(c2, ind + '    ', depth + 1, 1, 3)
        if self.chance(35):
            self.features.add('while-else')
            lines.append(ind + 'else:')
            lines += self.block(dict(ctx, in_block=True), ind + '    ', depth + 1, 1, 2)
        return lines

    def s_try(self, ctx, ind, depth):
        if self.profile == 'c03':
            return self.s_try_c03(ctx, ind, depth)
        self.features.add('try')
        c2 = dict(ctx, in_block=True)
        body = self.block(c2, ind + '    ', depth + 1, 1, 3)
        raiser = None
        if self.chance(75):
            self.dec()
            stmt = ind + '    ' + self.pick(['risky()', 'risky()', "raise ValueError('gen')" if self.profile == 'c01' else 'risky()'])
            if self.chance(50):
                body.insert(0, stmt)
                raiser = 'first'
            else:
                body.append(stmt)
                raiser = 'last'
            self.features.add('try-raises-' + raiser)
        exc_var = None
        if self.profile == 'c01' and raiser and self.chance(15):
            exc_var = self.name()
            body.insert(0, ind + '    %s = ValueError' % exc_var)
            self.features.add('except-type-bound-in-try')
        lines = [ind + 'try:'] + body
        nh = self.draw(st.integers(0 if not raiser else 1, 2))
        has_finally = self.chance(35) or nh == 0
        for hi in range(nh):
            k = self.draw(st.integers(0, 9))
            if hi == nh - 1 and raiser:
                # the last handler always catches what the body raises
                if exc_var:
                    head = 'except %s:' % exc_var
                elif self.profile == 'c01' and k < 2:
                    head = 'except:'
                    self.features.add('bare-except')
                elif k < 6:
                    en = self.exc_name() if self.profile != 'c01' or self.chance(60) else self.name()
                    head = 'except ValueError as %s:' % en
                    self.features.add('except-as')
                else:
                    head = 'except (ValueError, KeyError):'
            else:
                if k < 5:
                    en = self.exc_name() if self.profile != 'c01' or self.chance(60) else self.name()
                    head = 'except KeyError as %s:' % en
                    self.features.add('except-as')
                else:
                    head = 'except KeyError:'
            lines.append(ind + head)
            extra = list(ctx.get('extra_reads', []))
            if ' as ' in head:
                extra = extra + [head.split(' as ')[1].rstrip(':')]
            lines += self.block(dict(c2, extra_reads=extra), ind + '    ', depth + 1, 1, 2)
        if nh and self.chance(35):
            self.features.add('try-else')
            lines.append(ind + 'else:')
            lines += self.block(c2, ind + '    ', depth + 1, 1, 2)
        if has_finally:
            self.features.add('finally')
            lines.append(ind + 'finally:')
            lines += self.block(c2, ind + '    ', depth + 1, 1, 2)
        return lines

    def s_try_c03(self, ctx, ind, depth):
        """try whose handler is reachable exactly along the two edges supp models: from before the body
        (first statement raises) and from the end of the body (last statement raises)."""
        self.features.add('try')
        c2 = dict(ctx, in_block=True)
        body = self.block(c2, ind + '    ', depth + 1, 1, 3)
        lines = [ind + 'try:']
        handler = self.chance(65)
        if handler:
            self.dec(2)
            self.features.add('try-raises-first')
            self.features.add('try-raises-last')
            body = [ind + '    risky()'] + body + [ind + '    risky()']
        lines += body
        if handler:
            if self.chance(60):
                en = self.exc_name()
                lines.append(ind + 'except ValueError as %s:' % en)
                self.features.add('except-as')
                extra = list(ctx.get('extra_reads', [])) + [en]
            else:
                lines.append(ind + 'except ValueError:')
                extra = list(ctx.get('extra_reads', []))
            lines += self.block(dict(c2, extra_reads=extra), ind + '    ', depth + 1, 1, 2)
            if self.chance(40):
                self.features.add('try-else')
                lines.append(ind + 'else:')
                lines += self.block(c2, ind + '    ', depth + 1, 1, 2)
        if not handler or self.chance(35):
            self.features.add('finally')
            lines.append(ind + 'finally:')
            lines += self.block(c2, ind + '    ', depth + 1, 1, 2)
        return lines

    def s_with(self, ctx, ind, depth):
        self.features.add('with')
        plan = []
        bound = []
        for _ in range(self.draw(st.integers(1, 2))):
            if self.chance(65):
                t, names = self.target(ctx, allow_star=False)
                bound += names
                plan.append((t, names))
            else:
                plan.append((None, []))
        items = []
        for t, names in plan:
            e = self.expr(ctx, 1, tuple(bound) if self.profile != 'c01' else ())
            if t is None:
                items.append(e)
                continue
            if ',' in t:
                t = '(%s)' % t
                self.features.add('with-tuple-target')
            items.append('%s as %s' % (e, t))
        self.bind(ctx, bound)
        if len(items) > 1:
            self.features.add('with-multi')
        lines = [ind + 'with %s:' % ', '.join(items)]
        lines += self.block(dict(ctx, in_block=True), ind + '    ', depth + 1)
        return lines

    def s_def(self, ctx, ind, depth):
        fname = self.pick(FUNCS)
        self.features.add('def')
        if ctx.get('in_func'):
            self.features.add('nested-def')
        is_method = ctx.get('in_class_direct', False)
        if is_method:
            self.features.add('method')
        own_forbid = (fname,) if self.profile == 'c03' else ()
        if not ctx.get('in_func') and not ctx.get('in_class') and not is_method and self.chance(7):
            # the complete two-level pattern: the enclosing function binds g as its own local, the inner function (no parameters,
            # no bindings) declares g global and only reads it
            g = self.pick([n for n in POOL if n != fname])
            if self.chance(50):
                # a name nothing binds at module level: the read is unbound on every path
                self._gro = getattr(self, '_gro', 0) + 1
                g = 'gro%d' % self._gro
            inner = self.pick([f for f in FUNCS if f != fname] or FUNCS)
            self.features.add('read-only-global-function')
            self.features.add('nested-def')
            lines = [ind + 'def %s(%s):' % (fname, g if self.chance(40) else 'p0')]
            if not lines[0].endswith('(%s):' % g) or self.chance(50):
                lines.append(ind + '    %s = %s' % (g, self.expr(ctx, 1, (g,))))
            lines += [ind + '    def %s():' % inner, ind + '        global %s' % g,
                      ind + '        ' + self.pick(['use(%s)', 'return use(%s)', 'return %s', 'if %s: pass']) % g]
            lines.append(ind + '    ' + self.pick(['%s()' % inner, 'return %s()' % inner, 'use(%s)\n%s    %s()' % (g, ind, inner)]))
            self.funcs[fname] = (1, 1, [], [])
            self.bind(ctx, [fname])
            lines += self._call_stmt(ctx, ind, fname)
            return lines
        if ctx.get('in_func') and not is_method and self.chance(20):
            # a nested function without parameters and without bindings of its own that only READS a name it declares global
            # (or nonlocal): the enclosing function's binding of that name must not be what it sees
            g = self.pick([n for n in ctx.get('bound', []) if n in POOL and n != fname] * 3 + [n for n in POOL if n != fname])
            outer = [n for n in ctx.get('enclosing_params', []) if n != 'self' and n not in ctx.get('declared', [])]
            decl = 'global'
            if outer and self.chance(30):
                g, decl = self.pick(outer), 'nonlocal'
            self.features.add('read-only-%s-function' % decl)
            lines = [ind + 'def %s():' % fname, ind + '    %s %s' % (decl, g)]
            lines.append(ind + '    ' + self.pick(['use(%s)', 'return use(%s)', 'return %s', 'use(%s, %s)'.replace('%s, %s', '%s') , 'if %s: pass']) % g)
            self.funcs[fname] = (0, 0, [], [])
            self.bind(ctx, [fname])
            if self.chance(85):
                lines += self._call_stmt(ctx, ind, fname)
            return lines
        deco = []
        if self.chance(20):
            self.features.add('decorator')
            d = self.pick(['use', 'use'] + [f for f, s in self.funcs.items() if s[0] <= 1 <= s[1] and not s[2] and f != fname])
            if self.chance(50):
                # a decorator expression that reads names: visible there is what is bound where the statement stands
                d = 'use(%s)' % self._read(dict(ctx, hard_forbid=True), own_forbid)
                self.features.add('decorator-reads-name')
            if self.chance(30):
                d = '(%s)' % d          # a parenthesised decorator (python 3.9+): a layout may move the expression below its @
                self.features.add('decorator-parenthesised')
            deco.append(ind + '@' + d)
        params, sig = self.params(ctx, is_method, own_forbid)
        ret = ''
        if self.chance(15):
            ret = ' -> %s' % self._read(dict(ctx, hard_forbid=True), own_forbid)
            self.features.add('return-annotation')
        kw = 'def'
        if deco and deco[0].strip().lstrip('@(').startswith('use') and not is_method and self.chance(30):
            kw = 'async def'            # never called (the decorator replaces it): only its header is evaluated
            self.features.add('async-def')
        lines = deco + [ind + '%s %s(%s)%s:' % (kw, fname, ', '.join(params), ret)]
        pnames = sig['names']
        c2 = dict(ctx, in_func=True, in_loop=False, in_class=False, in_class_direct=False, in_block=False,
                  extra_reads=list(ctx.get('extra_reads', [])) + pnames, func_depth=ctx.get('func_depth', 0) + 1,
                  enclosing_params=pnames, declared=[], bound=list(ctx.get('bound', [])) + pnames)
        body = []
        # scope declarations first
        if self.chance(18):
            cands = [n for n in POOL if n not in pnames]
            if cands:
                g = self.pick(cands)
                body.append(ind + '    global %s' % g)
                self.features.add('global')
                c2['declared'] = [g]
        elif ctx.get('in_func') and self.chance(40):
            outer = [n for n in ctx.get('enclosing_params', []) if n not in pnames and n != 'self'
                     and n not in ctx.get('declared', [])]
            if outer:
                g = self.pick(outer)
                body.append(ind + '    nonlocal %s' % g)
                self.features.add('nonlocal')
                c2['declared'] = [g]
        # names this function may declare nonlocal in nested defs: its params + pool names assigned here (approximation: all pool names it assigns)
        saved_funcs = dict(self.funcs)
        inner_lines = self.block(c2, ind + '    ', depth + 1, 1, 4)
        assigned = _assigned_names(inner_lines, ind + '    ')
        body += inner_lines
        self.funcs = saved_funcs
        lines += body
        if not deco or deco[0].endswith('use') is False:
            pass
        if not ctx.get('in_class_direct'):
            if deco and deco[0].strip().lstrip('@(').startswith('use'):
                self.funcs.pop(fname, None)
            else:
                self.funcs[fname] = (sig['lo'], sig['hi'], sig['kwreq'], [])
                self.bind(ctx, [fname])
                if self.chance(85):
                    lines += self._call_stmt(ctx, ind, fname)
        else:
            ctx.setdefault('methods', {})[fname] = (sig['lo'], sig['hi'], sig['kwreq'], [])
        return lines

    def _call_stmt(self, ctx, ind, fname, prefix=''):
        lo, hi, kwreq, _ = self.funcs[fname] if not prefix else ctx['_msig']
        n = self.draw(st.integers(lo, hi))
        t = self.name() if self.chance(40) else None
        forbid = (t,) if t and self.profile != 'c01' else ()
        args = [self.expr(ctx, 2, forbid) for _ in range(n)]
        for kname in kwreq:
            args.append('%s=%s' % (kname, self.expr(ctx, 2, forbid)))
        self.features.add('call')
        callx = '%s%s(%s)' % (prefix, fname, ', '.join(args))
        if t is None and self.chance(50) and self.room():
            self.dec()
            self.features.add('call-under-if')
            return [ind + 'if %s:' % self._read(ctx, ()), ind + '    ' + callx]
        if t is not None:
            self.bind(ctx, [t])
            return [ind + '%s = %s' % (t, callx)]
        return [ind + callx]

    def params(self, ctx, is_method, forbid):
        if self.profile != 'c01':
            ctx = dict(ctx, no_walrus=True)
        if forbid:
            ctx = dict(ctx, hard_forbid=True)
        out = []
        names = []
        pool = [n for n in POOL]
        if is_method:
            out.append('self')
            names.append('self')

        def fresh():
            for _ in range(5):
                n = self.pick(pool)
                if n not in names:
                    names.append(n)
                    return n
            return None
        lo = hi = 0
        kwreq = []
        ann = lambda: (': %s' % self._read(ctx, forbid)) if self.chance(12) and not self.features.add('param-annotation') else ''
        npos_only = self.draw(st.integers(1, 2)) if self.chance(25) else 0
        had_default = False
        for _ in range(npos_only):
            n = fresh()
            if n:
                out.append(n + ann())
                lo += 1
                hi += 1
                self.features.add('posonly-param')
        if npos_only and out and out[-1] != 'self':
            out.append('/')
        for _ in range(self.draw(st.integers(0, 2))):
            n = fresh()
            if not n:
                continue
            if had_default or self.chance(30):
                out.append('%s%s=%s' % (n, ann(), self.expr(ctx, 1, forbid)))
                had_default = True
                hi += 1
                self.features.add('param-default')
            else:
                out.append(n + ann())
                lo += 1
                hi += 1
        star = False
        if self.chance(20):
            n = fresh()
            if n:
                out.append('*' + n + ann())
                star = True
                hi += 2
                self.features.add('vararg')
        if self.chance(25):
            n = fresh()
            if n:
                if not star:
                    out.append('*')
                if self.chance(60):
                    out.append('%s%s=%s' % (n, ann(), self.expr(ctx, 1, forbid)))
                    self.features.add('kwonly-default')
                else:
                    out.append(n + ann())
                    kwreq.append(n)
                self.features.add('kwonly-param')
        if self.chance(15):
            n = fresh()
            if n:
                out.append('**' + n + ann())
                self.features.add('kwarg')
        return out, {'lo': lo, 'hi': hi, 'kwreq': kwreq, 'names': names}

    def s_class(self, ctx, ind, depth):
        cname = self.pick(CLASSES)
        self.features.add('class')
        bases = []
        if self.classes and self.chance(40):
            bases.append(self.pick(self.classes))
            self.features.add('class-base')
        elif self.chance(20):
            bases.append('object')
        if self.chance(20) and ctx.get('has_meta'):
            bases.append('metaclass=Meta')
            self.features.add('class-keyword')
        deco = []
        if self.chance(12):
            deco.append(ind + '@use')
            self.features.add('class-decorator')
        lines = deco + [ind + 'class %s%s:' % (cname, '(%s)' % ', '.join(bases) if bases else '')]
        c2 = dict(ctx, in_class=True, in_class_direct=True, in_loop=False, in_block=False, in_func=False,
                  bound=list(ctx.get('bound', [])))
        saved_funcs = dict(self.funcs)
        c2['methods'] = {}
        gname = None
        if self.chance(12):
            # a global declaration in a class body: what the body binds under it belongs to the module. A name of its own
            # (g1, g2 ...), so that this binding is the only one a later read can mean
            self.gcount = getattr(self, 'gcount', 0) + 1
            gname = 'g%d' % self.gcount if self.chance(70) else self.pick(POOL)
            lines.append(ind + '    global %s' % gname)
            lines.append(ind + '    %s = %s' % (gname, self.expr(c2, 1)))
            self.features.add('global-in-class-body')
        lines += self.block(c2, ind + '    ', depth + 1, 1, 4)
        if gname:
            self.bind(ctx, [gname] * 3)
        self.funcs = saved_funcs
        if not deco:
            self.bind(ctx, [cname])
            for mname, msig in sorted(c2['methods'].items()):
                if self.chance(80):
                    self.features.add('method-call')
                    lines += self._call_stmt(dict(ctx, _msig=msig), ind, mname, prefix='%s().' % cname)
        if not deco and cname not in self.classes and 'metaclass=Meta' not in bases:
            self.classes.append(cname)
        if deco and cname in self.classes:
            self.classes.remove(cname)
        return lines

    def s_import(self, ctx, ind, depth):
        forms = list(FIXTURE_IMPORTS)
        if self.package:
            forms += REL_IMPORTS2 if self.package == 2 else REL_IMPORTS
        text, bound = self.pick(forms)
        if bound is None:
            n = self.name()
            text = text.format(n=n)
            self.bind(ctx, [n])
        self.features.add('import:' + text.split()[0] + ('-as' if ' as ' in text else '') + ('-dotted' if '.' in text.split()[1] and text.startswith('import') else '') + ('-relative' if text.startswith('from .') else ''))
        if bound is not None and self.chance(60):
            # names outside the pool (os, fx_pkg, fsub ...) are read right here: through the dotted path for `import a.b`
            dotted = text.split()[1] if text.startswith('import') and ' as ' not in text else bound[0]
            self.features.add('import-read-in-place')
            return [ind + text, ind + 'use(%s)' % (dotted if self.chance(70) else bound[0])]
        return [ind + text]

    def s_star(self, ctx, ind, depth):
        self.features.add('star-import')
        table = dict(STAR_NAMES)
        table2 = REL_STAR[2]
        if self.package:
            table.update(REL_STAR[2 if self.package == 2 else 1])
            if self.chance(50):
                table = REL_STAR[2 if self.package == 2 else 1]
                self.features.add('star-import-relative')
        line = self.pick(sorted(table))
        self.bind(ctx, table[line] * 2)
        b = ctx.setdefault('bound', [])
        b.extend(n for n in table[line] if n not in POOL)      # weight them up: they are what the import is for
        out = [ind + line, ind + 'use(%s)' % ', '.join(table[line][:2])]
        if self.package == 2 and line.startswith('from .') and self.chance(60):
            # relative imports of BOTH levels from one directory, in either order
            # (a second star import, because star imports are the ones resolved while the module is being analysed)
            oline = 'from ..sub import *' if line.startswith('from .leaf') else 'from .leaf import *'
            other = [ind + oline, ind + 'use(%s)' % ', '.join(table2[oline])] if self.chance(60) else \
                [ind + ('from .. import sub' if line.startswith('from .leaf') else 'from . import leaf')]
            if len(other) == 2:
                self.bind(ctx, table2[oline] * 2)
                b.extend(n for n in table2[oline] if n not in POOL)
            self.features.add('relative-imports-of-two-levels')
            out = (other + out) if self.chance(50) else (out + other)
        return out

    def s_return(self, ctx, ind, depth):
        self.features.add('return')
        if self.chance(25):
            return [ind + 'return']
        return [ind + 'return %s' % self.expr(ctx, 1)]

    def s_break(self, ctx, ind, depth):
        self.features.add('break')
        return [ind + 'break']

    def s_continue(self, ctx, ind, depth):
        self.features.add('continue')
        return [ind + 'continue']

    def s_whileexit(self, ctx, ind, depth):
        """a while loop whose body ENDS in raise / return, a name bound only in that body, read where control really gets:
        in an enclosing handler or finally clause, and after the loop through an earlier `continue`"""
        self.dec(3)
        self.features.add('while-body-ends-in-raise-or-return')
        self.we_count = getattr(self, 'we_count', 0) + 1
        nv = 'wv%d' % self.we_count
        c = self._read(ctx, ())
        in_func = ctx.get('in_func', False)
        last = self.pick(["raise ValueError('gen')", 'return %s' % nv] if in_func else ["raise ValueError('gen')"])
        variant = self.draw(st.integers(0, 2))
        lines = [ind + 'try:']
        lines += [ind + '    while %s:' % c, ind + '        %s = use(%s)' % (nv, c)]
        if variant != 1:
            lines += [ind + '        if %s:' % c, ind + '            continue']
        lines += [ind + '        ' + last]
        if variant == 2:
            lines += [ind + 'finally:', ind + '    use(%s)' % nv]
        else:
            lines += [ind + 'except ValueError:', ind + '    use(%s)' % nv]
        if variant != 1:
            lines += [ind + 'use(%s)' % nv]
        return lines

    def s_raise(self, ctx, ind, depth):
        if self.profile == 'c01' and not ctx.get('in_class_direct') and not ctx.get('in_loop') and self.chance(40) and self.room():
            return self.s_whileexit(ctx, ind, depth)
        self.features.add('raise')
        return [ind + "raise ValueError('gen')"]

    def s_risky(self, ctx, ind, depth):
        self.dec()
        self.features.add('risky-anywhere')
        return [ind + 'risky()']


def _assigned_names(lines, ind):
    out = []
    for l in lines:
        if l.startswith(ind) and not l[len(ind):].startswith(' '):
            head = l[len(ind):]
            if ' = ' in head:
                t = head.split(' = ')[0]
                for n in POOL:
                    if n in t.replace(',', ' ').replace('(', ' ').replace(')', ' ').replace('*', ' ').split():
                        out.append(n)
    return out


@st.composite
def programs(draw, profile='c01', size=None):
    package = {0: 1, 1: 1, 2: 2, 3: 2}.get(draw(st.integers(0, 9)), False)
    budget = [size or draw(st.integers(4, {'c01': 16, 'c02': 14, 'c03': 9}[profile]))]
    b = B(draw, profile, budget, package)
    lines = []
    ctx = {'extra_reads': []}
    if draw(st.integers(0, 9)) < 2:
        lines.append('class Meta(type): pass')
        ctx['has_meta'] = True
    # nonlocal needs the enclosing function's locals: record them lazily
    ctx['func_locals'] = []
    # a short prelude binds part of the pool so that most executions get past the first statements
    pre = draw(st.lists(st.sampled_from(POOL), min_size=1, max_size=3, unique=True))
    lines.append('%s = %s' % (' = '.join(pre), draw(st.integers(0, 9))))
    ctx['bound'] = list(pre)
    n = 0
    while budget[0] > 0 and n < 12:
        lines.extend(b.stmt(ctx, '', 0))
        n += 1
    # final reads so that joins are followed by a read
    lines.append('use(%s)' % ', '.join(sorted(b.seen_names | {draw(st.sampled_from(POOL))})))
    src = '\n'.join(lines) + '\n'
    return {'src': src, 'features': sorted(b.features), 'package': package, 'profile': profile}
