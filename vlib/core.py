"""Shared runner machinery: shards, evidence, known findings, replay files.

Every check module (checks/cNN.py) exposes

    PROPERTY   = 'Cnn'
    LEVEL      = 'exploration'
    RULE       = '...'            # how cases are generated / what is non-trivial
    ASSUMPTIONS = [...]
    def run(run)                  # drive the search, using run.pmap(worker, jobs)
    def replay(case) -> list[dict]  # re-run the oracle on one saved case: returns violations
    KNOWN = {finding_id: predicate(violation_dict) -> bool}   # optional classifiers

Workers are plain top-level functions returning Shard.result() dictionaries so that
they can cross a process boundary.
"""
from __future__ import annotations

import collections
import concurrent.futures
import hashlib
import json
import logging
import multiprocessing
import os
import sys
import time
import traceback

VERIF = os.path.dirname(os.path.dirname(os.path.abspath(__file__)))
REPO = os.environ.get('VERIF_REPO', '/repo')
NPROC = int(os.environ.get('VERIF_NPROC', '16'))

if REPO not in sys.path:
    sys.path.insert(0, REPO)
logging.disable(logging.CRITICAL)
import warnings
warnings.filterwarnings('ignore')


class HarnessError(Exception):
    """Something is wrong with the machinery, not with supp (exit 2)."""


def digest(obj) -> str:
    if not isinstance(obj, (bytes, str)):
        obj = json.dumps(obj, sort_keys=True, default=repr)
    if isinstance(obj, str):
        obj = obj.encode('utf-8', 'surrogatepass')
    return hashlib.sha256(obj).hexdigest()[:16]


def derive_seed(seed: int, *parts) -> int:
    h = hashlib.sha256(('%d:' % seed + ':'.join(map(str, parts))).encode()).hexdigest()
    return int(h[:12], 16)


def jsonable(x, depth=0):
    """Best-effort conversion of a case to something json.dump accepts."""
    if depth > 12:
        return repr(x)
    if isinstance(x, (str, int, float, bool)) or x is None:
        if isinstance(x, float) and x != x:
            return 'nan'
        return x
    if isinstance(x, bytes):
        return {'__bytes__': x.hex()}
    if isinstance(x, (list, tuple)):
        return [jsonable(i, depth + 1) for i in x]
    if isinstance(x, (set, frozenset)):
        return sorted((jsonable(i, depth + 1) for i in x), key=repr)
    if isinstance(x, dict):
        return {str(k): jsonable(v, depth + 1) for k, v in x.items()}
    return repr(x)


def unjson(x):
    if isinstance(x, dict):
        if set(x) == {'__bytes__'}:
            return bytes.fromhex(x['__bytes__'])
        return {k: unjson(v) for k, v in x.items()}
    if isinstance(x, list):
        return [unjson(i) for i in x]
    return x


class Shard:
    """Counters for one worker; result() is what travels back to the parent."""

    MAX_SAMPLES = 4
    MAX_VIOLATIONS = 20

    def __init__(self):
        self.evaluations = 0
        self.nontrivial = set()
        self.trivial_distinct = set()
        self.samples = []
        self.counters = collections.Counter()
        self.violations = []
        self.known = {}
        self.notes = []

    def case(self, key, nontrivial, sample=None, n=1):
        """Record one explored case. key identifies the case (hashed)."""
        self.evaluations += n
        d = key if (isinstance(key, str) and len(key) == 16) else digest(key)
        if nontrivial:
            new = d not in self.nontrivial
            self.nontrivial.add(d)
            if new and sample is not None and len(self.samples) < self.MAX_SAMPLES:
                self.samples.append(jsonable(sample))
        else:
            self.trivial_distinct.add(d)

    def count(self, label, n=1):
        self.counters[label] += n

    def violation(self, signature, case, detail=''):
        if len(self.violations) < self.MAX_VIOLATIONS:
            self.violations.append({'signature': signature, 'case': jsonable(case),
                                    'detail': detail if isinstance(detail, str) else jsonable(detail)})
        self.counters['violations_raw'] += 1

    def known_hit(self, fid, case=None):
        k = self.known.setdefault(fid, {'count': 0, 'example': None})
        k['count'] += 1
        if k['example'] is None and case is not None:
            k['example'] = jsonable(case)

    def result(self):
        return {'evaluations': self.evaluations, 'nontrivial': sorted(self.nontrivial),
                'trivial': len(self.trivial_distinct), 'samples': self.samples,
                'counters': dict(self.counters), 'violations': self.violations,
                'known': self.known, 'notes': self.notes}


_COVER = {'on': False, 'lines': set()}


def _cover_start():
    """Build-time aid (VERIF_COVER=<dir>): record which lines of <REPO>/supp a check executes, to find generator gaps.
    Uses sys.monitoring (3.12), so it coexists with the sys.settrace scheduler of C16.  Never active in registered commands."""
    out = os.environ.get('VERIF_COVER')
    if not out or _COVER['on'] or not hasattr(sys, 'monitoring'):
        return
    mon = sys.monitoring
    tool = 3
    try:
        mon.use_tool_id(tool, 'verif-cover')
    except ValueError:
        return
    prefix = os.path.join(REPO, 'supp') + os.sep
    lines = _COVER['lines']

    def on_line(code, line):
        if code.co_filename.startswith(prefix):
            lines.add((code.co_filename[len(prefix):], line))
        return mon.DISABLE
    mon.register_callback(tool, mon.events.LINE, on_line)
    mon.set_events(tool, mon.events.LINE)
    _COVER['on'] = True


def _cover_dump():
    out = os.environ.get('VERIF_COVER')
    if out and _COVER['on']:
        os.makedirs(out, exist_ok=True)
        with open(os.path.join(out, '%d.json' % os.getpid()), 'w') as f:
            json.dump(sorted(_COVER['lines']), f)


def _guard(fn_job):
    fn, job = fn_job
    _cover_start()
    try:
        return fn(job)
    except BaseException:
        return {'harness_error': traceback.format_exc()}
    finally:
        _cover_dump()


class Run:
    def __init__(self, module, tier, seed):
        self.module = module
        self.pid = module.PROPERTY
        self.tier = tier
        self.seed = seed
        self.t0 = time.time()
        self.evaluations = 0
        self.nontrivial = set()
        self.trivial = 0
        self.samples = []
        self.counters = collections.Counter()
        self.violations = []
        self.known = {}
        self.notes = []
        self.extra = {}
        self.harness_errors = []

    @property
    def quick(self):
        return self.tier == 'quick'

    def pick(self, quick, thorough):
        return quick if self.quick else thorough

    def merge(self, res):
        if 'harness_error' in res:
            self.harness_errors.append(res['harness_error'])
            return
        self.evaluations += res['evaluations']
        self.nontrivial.update(res['nontrivial'])
        self.trivial += res['trivial']
        for s in res['samples'][:2]:
            if len(self.samples) < 12:
                self.samples.append(s)
        self.counters.update(res['counters'])
        self.violations.extend(res['violations'])
        for fid, k in res['known'].items():
            mine = self.known.setdefault(fid, {'count': 0, 'example': None})
            mine['count'] += k['count']
            if mine['example'] is None:
                mine['example'] = k['example']
        self.notes.extend(res.get('notes', []))

    def pmap(self, fn, jobs, procs=None):
        """Run fn over jobs in worker processes; merge results."""
        jobs = list(jobs)
        procs = min(procs or NPROC, max(1, len(jobs)))
        if procs == 1 or os.environ.get('VERIF_SERIAL'):
            for j in jobs:
                self.merge(_guard((fn, j)))
            return
        ctx = multiprocessing.get_context('fork')
        with concurrent.futures.ProcessPoolExecutor(procs, mp_context=ctx) as ex:
            for res in ex.map(_guard, [(fn, j) for j in jobs]):
                self.merge(res)

    def local(self, shard):
        self.merge(shard.result())


def load_known(pid):
    path = os.path.join(VERIF, 'known_findings.json')
    try:
        with open(path) as f:
            data = json.load(f)
    except FileNotFoundError:
        return []
    return [e for e in data.get('entries', []) if e.get('property') == pid]


_LINE_BREAK = __import__('re').compile(r'\r\n|\r|\n')


def plines(text):
    """lines as the Python parser counts them (str.splitlines also breaks at form feeds, \x1c-\x1e, \x85, \u2028 ...)"""
    out = _LINE_BREAK.split(text)
    if len(out) > 1 and not out[-1]:
        out.pop()
    return out if text else []


def supp_crash(e):
    """(signature, detail) when exception e was raised inside the code under test (a frame of <REPO>/supp), else None.
    A semantic check that gets no answer at all for an in-domain input reports that as a violation of its property
    (the analysis raised) instead of dying with a harness error."""
    tb = traceback.extract_tb(e.__traceback__)
    own = [f for f in tb if f.filename.startswith(os.path.join(REPO, 'supp') + os.sep)]
    if not own:
        return None
    last = own[-1]
    return ('analysis-raises:%s:%s.%s' % (type(e).__name__, os.path.basename(last.filename)[:-3], last.name),
            'supp raised %r at %s:%d (%s)' % (e, os.path.basename(last.filename), last.lineno, last.line))


def crash_guard(info0):
    """decorator for oracle functions returning (problems, info)"""
    def deco(fn):
        def wrapper(*a, **k):
            try:
                return fn(*a, **k)
            except Exception as e:
                hit = supp_crash(e)
                if hit is None:
                    raise
                return [hit], dict(info0)
        wrapper.__name__ = fn.__name__
        wrapper.__doc__ = fn.__doc__
        return wrapper
    return deco


def write_replay(pid, v):
    d = os.path.join(VERIF, 'replays', pid)
    os.makedirs(d, exist_ok=True)
    name = 'viol_%s.json' % digest([v['signature'], v['case']])
    path = os.path.join(d, name)
    with open(path, 'w') as f:
        json.dump({'property': pid, 'signature': v['signature'], 'case': v['case'],
                   'detail': v['detail']}, f, indent=1, sort_keys=True)
    return os.path.relpath(path, VERIF)


def finish(run):
    """Classify, print, write evidence; returns the exit code."""
    module = run.module
    pid = run.pid
    entries = load_known(pid)
    findings = [e for e in entries if e.get('status') == 'finding']
    known_pred = getattr(module, 'KNOWN', {})

    if run.harness_errors:
        for h in run.harness_errors[:3]:
            sys.stderr.write('HARNESS-ERROR: %s\n' % h)
        write_evidence(run, 0, harness_error=True)
        return 2

    # late classification of violations against listed findings
    fresh = []
    for v in run.violations:
        matched = None
        for e in findings:
            pred = known_pred.get(e['id'])
            if pred is not None:
                try:
                    if pred(v):
                        matched = e['id']
                        break
                except Exception:
                    pass
        if matched:
            k = run.known.setdefault(matched, {'count': 0, 'example': None})
            k['count'] += 1
            if k['example'] is None:
                k['example'] = v['case']
        else:
            fresh.append(v)

    # witnesses of listed findings are replayed on every run
    for e in findings:
        fid = e['id']
        still = None
        if 'witness' in e and hasattr(module, 'replay'):
            try:
                vs = module.replay(unjson(e['witness']))
                pred = known_pred.get(fid)
                still = any((pred(v) if pred else True) for v in vs)
                for v in vs:
                    if pred and not pred(v):
                        fresh.append(v)
            except Exception:
                sys.stderr.write('HARNESS-ERROR: witness replay failed for %s\n%s\n' % (fid, traceback.format_exc()))
                write_evidence(run, 0, harness_error=True)
                return 2
        hits = run.known.get(fid, {}).get('count', 0)
        if still is False and hits == 0:
            print('STALE-FINDING: property=%s %s no longer reproduces (entry can be retired)' % (pid, fid))
        else:
            print('KNOWN-FINDING: property=%s %s: %s [hits this run: %d]' % (pid, fid, e.get('what', ''), hits))

    # witnesses of fixed defects are a plain regression tier: they suppress nothing
    for e in entries:
        if e.get('status') == 'fixed' and 'witness' in e and hasattr(module, 'replay'):
            try:
                for v in module.replay(unjson(e['witness'])):
                    v = dict(v)
                    v['detail'] = 'REGRESSION of fixed defect (%s): %s' % (e.get('commit'), v.get('detail'))
                    fresh.append(v)
                run.counters['regression_witnesses_replayed'] += 1
            except Exception:
                sys.stderr.write('HARNESS-ERROR: regression replay failed\n%s\n' % traceback.format_exc())
                write_evidence(run, 0, harness_error=True)
                return 2

    # a known-finding id reported by a worker that is not listed is a violation
    listed = {e['id'] for e in findings}
    for fid, k in run.known.items():
        if fid not in listed:
            fresh.append({'signature': 'unlisted-known:' + fid, 'case': k['example'],
                          'detail': 'classifier %s fired but known_findings.json does not list it' % fid})

    seen = set()
    uniq = []
    for v in fresh:
        if v['signature'] not in seen:
            seen.add(v['signature'])
            uniq.append(v)
    for v in uniq:
        path = write_replay(pid, v)
        print('VIOLATION property=%s replay=%s' % (pid, path))
        print('  signature: %s' % (v['signature'],))
        d = v['detail'] if isinstance(v['detail'], str) else json.dumps(v['detail'])
        print('  detail: %s' % d[:600])
    write_evidence(run, len(uniq))
    return 1 if uniq else 0


def write_evidence(run, nviol, harness_error=False):
    module = run.module
    cov = {
        'evaluations': run.evaluations,
        'distinct_nontrivial': len(run.nontrivial),
        'distinct_trivial': run.trivial,
        'rule': module.RULE,
        'samples': run.samples[:12],
        'classes': dict(sorted(run.counters.items())),
        'excluded_known': {fid: k['count'] for fid, k in run.known.items()},
    }
    cov.update(run.extra)
    ev = {
        'property_id': run.pid,
        'tier': run.tier,
        'seed': run.seed,
        'level': getattr(module, 'LEVEL', 'exploration'),
        'coverage': cov,
        'assumptions': list(getattr(module, 'ASSUMPTIONS', [])),
        'wall_s': round(time.time() - run.t0, 2),
        'violations': nviol,
    }
    if run.notes:
        ev['coverage']['notes'] = run.notes[:20]
    if harness_error:
        ev['coverage']['harness_error'] = True
    d = os.path.join(VERIF, 'evidence')
    os.makedirs(d, exist_ok=True)
    with open(os.path.join(d, run.pid + '.json'), 'w') as f:
        json.dump(ev, f, indent=1, sort_keys=True, default=repr)


# ---------------------------------------------------------------------------
# Hypothesis glue

def hyp_settings(max_examples, shrink=True, **kw):
    from hypothesis import settings, HealthCheck, Phase
    phases = [Phase.explicit, Phase.generate, Phase.target]
    if shrink:
        phases.append(Phase.shrink)
    return settings(max_examples=max_examples, deadline=None, database=None,
                    derandomize=False, report_multiple_bugs=False, phases=phases,
                    suppress_health_check=list(HealthCheck), print_blob=False, **kw)


class Found(Exception):
    """Raised inside a Hypothesis property to make it shrink a violation."""

    def __init__(self, signature, case, detail=''):
        Exception.__init__(self, signature)
        self.signature = signature
        self.case = case
        self.detail = detail


def minimise_lines(src, test, max_steps=300, budget_s=45):
    """Line-level ddmin of a program text. test(candidate) -> True if the failure (same signature) persists.
    Also tries to drop a compound-statement header and dedent its block."""
    lines = plines(src)
    steps = [0]
    try:
        if not test('\n'.join(lines) + '\n'):
            return src          # the failure depends on the exact line ends: leave the text as it is
    except Exception:
        return src

    t_end = time.time() + budget_s

    def ok(cand):
        steps[0] += 1
        if time.time() > t_end:
            steps[0] = max_steps        # out of time: keep what has been reached (minimisation is a convenience, never a verdict)
            return False
        if not cand:
            return False
        try:
            return bool(test('\n'.join(cand) + '\n'))
        except Exception:
            return False
    n = 2
    while len(lines) >= 2 and steps[0] < max_steps:
        chunk = max(1, len(lines) // n)
        removed = False
        i = 0
        while i < len(lines) and steps[0] < max_steps:
            cand = lines[:i] + lines[i + chunk:]
            if ok(cand):
                lines = cand
                removed = True
            else:
                i += chunk
        if not removed:
            if chunk == 1:
                break
            n = min(len(lines), n * 2)
    # header removal + dedent
    changed = True
    while changed and steps[0] < max_steps:
        changed = False
        for i, l in enumerate(lines):
            if l.rstrip().endswith(':') and not l.lstrip().startswith(('def ', 'class ', 'else', 'elif', 'except', 'finally')):
                ind = len(l) - len(l.lstrip())
                j = i + 1
                while j < len(lines) and (len(lines[j]) - len(lines[j].lstrip()) > ind or not lines[j].strip()):
                    j += 1
                block = [x[4:] if x.startswith(' ' * (ind + 4)) else x for x in lines[i + 1:j]]
                cand = lines[:i] + block + lines[j:]
                if ok(cand):
                    lines = cand
                    changed = True
                    break
    return '\n'.join(lines) + '\n'


def hyp_search(shard, prop, strategy, seed, max_examples, shrink=True, max_rounds=4, minimise=None, budget_s=None):
    """Run prop(value) over strategy. prop returns None or raises Found.

    Collect-then-shrink: after a shrunk violation is recorded its signature is excluded
    (prop receives the set via shard.excluded) and the search restarts with a new derived
    seed so that campaigns continue behind a shallow defect.
    """
    from hypothesis import given, seed as hseed
    shard.excluded = getattr(shard, 'excluded', set())
    t_start = time.time()
    if budget_s is None:
        budget_s = 150          # no further search round is started later than this (a budget hit is never a violation)
    for rnd in range(max_rounds):
        if budget_s is not None and rnd and time.time() - t_start > budget_s:
            shard.count('search_rounds_cut_by_time_budget')
            return
        last = {}

        def wrapped(value):
            try:
                prop(value)
            except Found as f:
                if f.signature in shard.excluded:
                    shard.count('excluded_repeat')
                    return
                last['f'] = f
                raise

        test = hseed(derive_seed(seed, rnd))(hyp_settings(max_examples, shrink)(given(strategy)(wrapped)))
        try:
            test()
            return
        except Found:
            f = last['f']
            if minimise is not None:
                try:
                    f = minimise(f) or f
                except Exception:
                    pass
            shard.violation(f.signature, f.case, f.detail)
            shard.excluded.add(f.signature)
        except Exception as e:
            if 'f' in last and type(e).__name__ in ('Flaky', 'FlakyFailure', 'FlakyReplay'):
                f = last['f']
                shard.violation(f.signature, f.case, 'non-deterministic under replay: %s' % f.detail)
                shard.excluded.add(f.signature)
            else:
                raise
