#!/bin/bash
# tools/runall.sh [tier] : run every registered check once, print one line per check
cd /verif
tier=${1:-quick}
for id in $(python3 -c "import json;print(' '.join(c['property_id'] for c in json.load(open('MANIFEST.json'))['checks']))"); do
    out=$(./check $id $tier 2>&1)
    code=$?
    echo "$id exit=$code $(echo "$out" | tail -1 | sed 's/^[A-Z0-9]* [a-z]* //')"
    if [ $code -ne 0 ]; then echo "$out" | grep -E "VIOLATION|signature|HARNESS" | head -5; fi
done
