#!/bin/bash
# tools/matrix_par.sh <log> [parallel=3] [pattern] : every seeded change against the quick check of its own property, several at a time
# (build-time helper; evidence files are overwritten by these runs - finish with tools/runall.sh on the real tree)
cd /verif
log=$1; par=${2:-3}; pat=${3:-*}
: > $log
one() {
    d=$1
    m=$(basename $d)
    pid=$(python3 -c "import json;print(json.load(open('$d/meta.json'))['property'])")
    out=$(tools/seedtest.sh $d $pid 2>&1 | grep -E "^C[0-9]+: exit|PATCH|^tests|demo with")
    echo "$m $(echo "$out" | tr '\n' '|')"
}
export -f one
ls -d seeded/$pat/ | xargs -P $par -I{} bash -c 'one {}' >> $log
echo done >> $log
