#!/usr/bin/env python3
"""Regenerate MANIFEST.json from the table below; validate with tools/validate.py."""
import json
import os

HERE = os.path.dirname(os.path.dirname(os.path.abspath(__file__)))
ALL = ['C%02d' % i for i in range(1, 18)]

CHECKS = {
    'C14': dict(
        technique='property-based testing: exhaustive boundary enumeration + Hypothesis recursive values + differential against a reference codec written from the spec; atheris coverage-guided byte fuzzing in the thorough tier',
        category='exploration',
        text='Generated-input search with four oracles (round trip, independent reference decoder, reference encoder choosing arbitrary legal formats, raw-byte differential). The boundary sets named by the property are enumerated completely; nested values and byte streams are sampled. Right level: the codec is a pure function of its input, so generated search against a spec-derived reference decides it directly.',
        design_ref='DESIGN.md section 4 (C14)',
        note='Trusts vlib/ref/msgpack_ref.py (self-tested against spec vectors each run), CPython struct/int.to_bytes; map keys restricted to what a Python dict can hold (nil, bool, int, float, str, bytes, ext, arrays of those; no maps as keys, no keys that collide as Python values); compatibility mode off.'),
    'C07': dict(
        technique='property-based differential testing: Hypothesis-generated directory trees, importlib (PathFinder / resolve_name / pkgutil) as reference model',
        category='exploration',
        text='Every generated tree is materialised on disk and every derived absolute name, relative specifier and import-line completion is compared with what importlib computes for the same (roots + sys.path). Differential against the real import machinery is the strongest executable oracle for this property; trees are sampled, the queries per tree are enumerated completely.',
        design_ref='DESIGN.md section 4 (C07)',
        note='Trusts importlib/pkgutil of CPython 3.12; source trees hold .py files (real extension modules referenced by name); compiled modules inside trees are copies of real lib-dynload files under other dotted names, one child process per tree, roots on and off sys.path; namespace packages and module/package twins are outside the property domain.'),
    'C01': dict(
        technique='property-based differential testing against CPython itself: Hypothesis program generator + dynref (AST instrumentation, exhaustive decision enumeration with replay) as execution oracle',
        category='exploration',
        text='Every generated program is executed by CPython under every combination of branch outcomes / 0..2 loop trips / raise decisions (up to a cap), each successful identifier read is recorded by source position, and supp must show that identifier through lint, completion and names_at. The oracle is the real interpreter, so the check relates supp to what Python binds - which the unit tests never do. Programs are sampled; per program the execution space is enumerated (counted separately when capped).',
        design_ref='DESIGN.md sections 3.1, 3.2, 4 (C01)',
        note='Trusts CPython 3.12 and the instrumenter (self-test each run); loop bound 2, call depth 3; grammar of vlib/gen/programs.py, not all of Python. Two listed findings (global binding read at module level; annotation reading its own target) are classified from dynamic facts.'),
    'C02': dict(
        technique='property-based differential testing against CPython: Hypothesis programs (structured fragment) + dynref reaching-definition oracle (decision enumeration with replay)',
        category='exploration',
        text='For every generated structured program, dynref records which binding site supplied each successful read over all branch/trip/raise combinations; every same-body (read, site) pair must be among supp\'s alternatives for that read, listed by location(), and not flagged W01/W02. Existential direction only, so capped programs remain usable.',
        design_ref='DESIGN.md sections 3.1, 4 (C02)',
        note='Same trusted base as C01; "same body" decided by the instrumenter\'s scope ids; three listed findings classified by syntactic/dynamic signatures (annotation order, conditional walrus, statement split by a comprehension).'),
    'C03': dict(
        technique='property-based differential testing with per-program exhaustive execution enumeration (dynref, path mode); metamorphic classifier (returns neutralised) for the listed finding',
        category='exploration',
        text='Both directions of the reaching-definitions relation: no phantom alternatives, has_undefined exactly when some path is unbound, E02 for never-bound names. Only programs whose whole decision space was enumerated are used, so "on no path" is decided per program; the program space is sampled.',
        design_ref='DESIGN.md sections 3.1, 4 (C03)',
        note='Loop bound 2; names routed through global/nonlocal are excluded from the definition checks (a global-declared read that nothing binds at module level must still be flagged) and names another scope/builtin/star import could supply are excluded from the undefined/never-bound checks; listed finding "flow graph ignores return" is matched only when the discrepancy vanishes on the return-neutralised variant.'),
    'C04': dict(
        technique='property-based testing over query histories: permutation enumeration / sampled orders against a fresh-first baseline; Hypothesis operation sequences on one Project vs a new Project',
        category='exploration',
        text='The oracle is supp itself on a fresh state: every read is first answered on a fresh analysis, then the same reads are asked on one analysis object in all permutations (small modules) or forward/reverse/inside-out/every-read-first/random orders, and lint()/location() must agree with the per-read answers; project-level request sequences (single requests and bursts over several positions of one line, over attribute/loop modules, a package with relative imports and a top-level script) are compared request by request with a new Project; on real files a sample of attribute accesses is evaluated front to back, back to front and first-on-fresh, and all must agree. Decides order-independence (memoisation transparency), which no single-order unit test can see.',
        design_ref='DESIGN.md section 4 (C04)',
        note='Says nothing about correctness of the baseline (C01-C03 do). Three listed findings (instance attribute tables kept although cut by the re-entrancy guard, in two shapes; star-import cycle) each with a classifier of its own; deep alias chains in a project module are asked in generated orders. Real files: baselines for a sample of reads (loop reads preferred); all reads compared across orders.'),
    'C08': dict(
        technique='fuzzing / property-based robustness testing with a semantic oracle (ast.parse on the text and on the cursor-marked text), exception bucketing by (entry point, exception class, innermost supp frame); atheris-free quick tier, corpus + mutation + generated streams',
        category='exploration',
        text='Real files at seeded cursor positions, typing-state mutations, generated programs and deliberately cyclic cases are pushed through lint/assist/location; the oracle is CPython\'s own parser (E01 iff the text does not parse, with its message and position; SyntaxError from assist/location only when the marked text does not parse; nothing else may escape; results well-formed). Failures are bucketed by root cause so the campaign continues behind each one.',
        design_ref='DESIGN.md section 4 (C08)',
        note='Cannot show termination, only absence of non-termination within 60 s per call on the explored inputs; AST depth > 60 is out of domain; project files other than the edited one are the committed fixtures and the stdlib.'),
    'C11': dict(
        technique='property-based testing with a purely textual oracle over corpus bindings and generated layouts (Hypothesis shape templates + token-level re-layout)',
        category='exploration',
        text='Every binding supp enumerates, every lint W01/W02 position and every same-file location() result is checked against the text: the identifier (or `except` / `*`) must start exactly there with identifier boundaries, and the three entry points must agree. Shape templates stress exactly what is recovered by text search (imports, def, class) under unusual spacing, continuations, aliases equal to module/member names and `;`-joined statements.',
        design_ref='DESIGN.md section 4 (C11)',
        note='ASCII-only lines (ast columns are byte offsets elsewhere); star-imported names expected at the `*`; bindings under a global declaration are checked at token level only.'),
    'C13': dict(
        technique='metamorphic property-based testing: layout-only transformations (token-level printer, ast.unparse) with identical-AST guard; comparison of diagnostics and per-read definitions by NAME-token ordinal',
        category='exploration',
        text='For each real file and generated program several equivalent layouts are produced; the analysis results must correspond one to one (diagnostics sequence, visible names, undefined flag, definitions). The relation is exact and needs no reference analysis, so any position-comparison bug shows as a difference between two runs of supp itself.',
        design_ref='DESIGN.md section 4 (C13)',
        note='Variants that do not parse to the identical AST are discarded and counted (0.2% on this tree); NAME-token ordinals identify bindings across layouts.'),
    'C12': dict(
        technique='property-based testing of the completion contract: textual oracle for the prefix (str.isidentifier run), well-formedness predicate for proposals, metamorphic relation marked vs unmarked analysis (transparency); enumerated preceding-character classes + corpus and generated positions',
        category='exploration',
        text='Three oracles at every sampled cursor: the prefix must equal the identifier characters left of the cursor (pure text), the proposal list must be sorted / duplicate-free / identifiers / marker-free, and inserting the cursor must not change the analysis (proposals equal what the unmarked analysis makes visible there, for bare names and for `expr.`). The preceding-character classes the property lists are enumerated in synthetic lines.',
        design_ref='DESIGN.md section 4 (C12)',
        note='Positions where the marked text does not parse are skipped (SyntaxError is allowed there, C08 owns that rule); identifier characters are decided with str.isidentifier; non-ASCII lines are included (cursor columns are characters, the unmarked analysis is keyed by parser byte columns).'),
    'C10': dict(
        technique='property-based differential testing against a purely syntactic reference model (own AST walk, no flow analysis) over generated modules (binding kind x scope kind x name shape) and real files',
        category='exploration',
        text='For identifiers that are never read anywhere in the file the set of W01/W02 reports is fully determined by the statement; the reference computes it from (binding kind, scope kind, name shape) alone and the check compares multisets of (code, name, line, col), so over-reporting, under-reporting, wrong code/position and duplicates are all caught.',
        design_ref='DESIGN.md section 4 (C10)',
        note='Names touched by nonlocal / del / augmented assignment, parameters of a lambda written directly in a class body, and files reading `locals` are left unclassified because the statement is silent on them.'),
    'C05': dict(
        technique='differential testing against the compiler (stdlib symtable) over the real-file corpus (exhaustive in the thorough tier) and Hypothesis deep-nesting modules',
        category='exploration',
        text='The AST is aligned with the symbol-table tree; for every Name read the compiler says which scope owns the identifier, and every alternative supp returns must belong to that owner. The oracle is the compiler itself over hundreds of thousands of reads of real code plus generated nesting/shadowing/global/nonlocal shapes.',
        design_ref='DESIGN.md section 4 (C05)',
        note='Works around two artefacts of the 3.12 symtable module (blocks named "top" are mistaken for the module; inlined comprehension variables appear as function locals). Class-body reads of class-bound names are skipped as the property states. One listed finding (comprehension variable leaks), pinned by an existing test.'),
    'C06': dict(
        technique='property-based differential testing against CPython object model: Hypothesis class-hierarchy IR rendered to modules, executed by CPython (__mro__, vars(), instance __dict__) and compared with assist/location',
        category='exploration',
        text='Each generated hierarchy is written to disk, imported by CPython and inspected; for every probed expression form the proposals must contain all source-defined attributes along the MRO plus the instance dictionary, and go-to-definition must land where Python\'s lookup lands (last executed self-assignment among the assignment sites, else first MRO class). Empty proposals for a listed form are failures, so "evaluation returns nothing" cannot pass.',
        design_ref='DESIGN.md section 4 (C06)',
        note='Tree-shaped hierarchies only (no repeated ancestors); instance dictionaries are produced by calling plain methods in sorted-name order; unexecuted self-assignments are accepted as definitions (the statement leaves that open).'),
    'C09': dict(
        technique='model-based / stateful property-based testing: exhaustive enumeration of short operation histories + Hypothesis RuleBasedStateMachine; reference = a freshly created Project on the same disk state',
        category='exploration',
        text='Histories of rewrite / touch / create / delete / request operations are applied to a long-lived Project (requests inside check_changes, as the server does); after every request the reply must equal that of a Project created at that moment. All histories up to length 3 over a reduced alphabet plus every request;edit;edit;request history (quick) / up to length 3 over the full alphabet (19 edits incl. deletions, 27 requests from several buffers) and length 4 over the reduced one (thorough) are enumerated, plus directed histories of length 5; longer ones come from a rule-based state machine that shrinks whole sequences.',
        design_ref='DESIGN.md section 4 (C09)',
        note='One fixed import graph (diamond, a chain of length 3 below the requesting file, an import cycle, a relative-import package, late-created modules and package, a module deleted and written again, an import under a global declaration) whose module contents are functions of toggles; modification times from a harness counter via os.utime; order inside alternative lists normalised (C17).'),
    'C17': dict(
        technique='property-based testing across processes: generated and corpus requests with multi-alternative answers replayed in fresh interpreters under different PYTHONHASHSEED values and heap layouts; byte-identical serialisation oracle',
        category='exploration',
        text='A pre-pass selects requests whose answer has several alternatives; each batch is answered twice in each of k fresh interpreters started with different hash seeds and different amounts of prior allocation; all serialised answers must be identical and alternative lists must be in source order. Order that depends on memory addresses or string hashing cannot be seen inside one test process; this check makes the process a generated input.',
        design_ref='DESIGN.md section 4 (C17)',
        note='k = 4 (quick) / 8 (thorough) processes; address-space layout is varied indirectly (prior allocation, ASLR), not controlled.'),
    'C15': dict(
        technique='stateful property-based testing (Hypothesis RuleBasedStateMachine) against a real server subprocess with an in-process mirror as reference model; fault rules injected at arbitrary indexes',
        category='exploration',
        text='Each generated operation sequence is sent through the real client to a real server process and evaluated in lockstep on an identical in-process Project; replies must be equal up to tuple->list, failures must surface on the client with the server-side message, and after every fault the next request must still be answered by the same live child. Payload sizes cross every msgpack length boundary up to 4 MiB.',
        design_ref='DESIGN.md section 4 (C15)',
        note='One server per sequence; the expected outcome is computed by calling the Server methods directly on a Project the harness builds (neither Server.process nor Server.configure, both under test, are used by the mirror); fixed sequences around a request that keeps the server busy for 6-12 s and sequences under the server\'s default logging (hundreds of failing requests, failing requests with very large messages) run beside the state machines; every call runs under a reply watchdog; repeated stateful eval sources are judged against a function body built by the harness, not against Server.eval; quick tier runs without Hypothesis shrinking (sequences are <= 12 steps).'),
    'C16': dict(
        technique='schedule exploration: harness-owned deterministic scheduler (sys.settrace line events as yield points, fake Thread/Lock, Environment._run itself scheduled with only subprocess.Popen and multiprocessing.connection.Client replaced), exhaustive DFS with replay under a preemption bound + Hypothesis-generated schedules; fault injection with a real subprocess for close / disconnect / launch failure',
        category='exploration',
        text='The schedule becomes a generated input: every interleaving with at most 2 (quick) / 3 (thorough) preemptions at source-line granularity of supp/remote.py is enumerated for every scenario of up to three threads doing prepare()/first calls (also after a completed prepare, across close + second session with and without a configured first session, and with close() racing prepare()), checking one launch per session, no exception, every call answered with its own reply, no deadlock. Real-process runs decide the close / disconnect / launch-failure clauses.',
        design_ref='DESIGN.md section 4 (C16)',
        note='Line granularity of remote.py only (no races inside multiprocessing.connection); the preemption-bounded part is exhaustive for its bound; liveness bounds of the real-process runs are 10-12 s; a deadlocked schedule is reported as a violation and its threads are abandoned; launch failure is exercised with an unstartable, an exiting and a too slow interpreter.'),
}

NOT_YET = 'not claimed'


def main():
    checks = []
    for pid in ALL:
        c = CHECKS.get(pid)
        if not c:
            continue
        checks.append({
            'property_id': pid,
            'quick_cmd': './check %s quick' % pid,
            'thorough_cmd': './check %s thorough' % pid,
            'evidence_file': 'evidence/%s.json' % pid,
            'replay_cmd_template': './check %s --replay {path}' % pid,
            'engine': c.get('engine', 'vlib'),
            'level_claimed': {'category': c['category'], 'text': c['text'], 'design_ref': c['design_ref']},
            'level_note': c['note'],
            'technique': c['technique'],
        })
    na = [{'property_id': pid, 'reason': NOT_YET} for pid in ALL if pid not in CHECKS]
    manifest = {
        'version': 1,
        'setup_cmd': './setup.sh',
        'hooks': {
            'guard': 'SUPP_VERIF',
            'enable': 'no source hooks: all instrumentation is external (monkeypatching and sys.settrace inside the check process); ./check exports SUPP_VERIF=1 for uniformity',
            'baseline_off_cmd': 'cd /repo && env -u SUPP_VERIF /venv/bin/python -m pytest -ra -q -p no:cacheprovider --timeout=900 --continue-on-collection-errors',
            'source_commits': [],
            'add_only': True,
        },
        'engines': [
            {'name': 'vlib', 'path': 'vlib/', 'serves_properties': sorted(CHECKS),
             'kind_free_text': 'Python runner: 16 worker processes, Hypothesis strategies / state machines, exhaustive enumerators, reference models (vlib/ref), evidence + known-findings + replay handling'},
        ],
        'checks': checks,
        'not_applicable': na,
        'notes': 'All checks: cwd=/verif, ./check <ID> <quick|thorough>, VERIF_SEED honoured, exit 0/1/2 (2 = harness error). Known findings: known_findings.json.',
    }
    with open(os.path.join(HERE, 'MANIFEST.json'), 'w') as f:
        json.dump(manifest, f, indent=1)
        f.write('\n')
    print('wrote MANIFEST.json with %d checks, %d not_applicable' % (len(checks), len(na)))


if __name__ == '__main__':
    main()
