#!/usr/bin/env python3
"""Deliberate-breakage table (DESIGN.md section 6): applies each mutant to a scratch worktree of /repo HEAD, runs the
repository's tests (a mutant only counts if they still pass) and the named checks with VERIF_REPO pointing at the
worktree.  usage: tools/selfmut.py [name-substring ...]"""
import json
import os
import subprocess
import sys

M = [
    # (name, file, old, new, checks)
    ('C01-drop-kwonly-binding', 'supp/scope.py', "            for n in node.args.kwonlyargs:\n                self.args.append(ArgumentName([], n.arg, self.location, np(n), self))", "            for n in []:\n                self.args.append(ArgumentName([], n.arg, self.location, np(n), self))", ['C01']),
    ('C01-skip-orelse-in-if', 'supp/nast.py', "        orelse = self.visit_in_flow(node.orelse, self.make_flow('else', [cur]))\n        self.flow = self.make_flow('join', [body, orelse])", "        orelse = self.make_flow('else', [cur])\n        self.flow = self.make_flow('join', [body, orelse])", ['C01']),
    ('C01-names_at-strict-bisect', 'supp/scope.py', "        idx = bisect(self._names, Location(loc))", "        idx = bisect_left(self._names, Location(loc))", ['C01', 'C02']),
    ('C02-for-else-parents-cur-only', 'supp/nast.py', "self.make_flow('for-else', [cur, body])", "self.make_flow('for-else', [cur])", ['C02', 'C01']),
    ('C02-omit-handlers-from-try-join', 'supp/nast.py', "        self.flow = self.make_flow('join', [orelse] + handlers)", "        self.flow = self.make_flow('join', [orelse])", ['C02', 'C01']),
    ('C02-loop-back-edge-empty', 'supp/scope.py', "            result = self.parent.names\n        finally:", "            result = {}\n        finally:", ['C02', 'C01']),
    ('C03-drop-undefined-marker', 'supp/scope.py', "                nrow = set(r.get(n, UndefinedName(n)) for r in pnames)", "                nrow = set(r[n] for r in pnames if n in r)", ['C03']),
    ('C03-bind-at-target-position', 'supp/nast.py', "                    self.flow.add_name(AssignedName(name.id, eend, np(name), node.value))\n\n        self.generic_visit(node)\n\n    def visit_AnnAssign", "                    self.flow.add_name(AssignedName(name.id, np(name), np(name), node.value))\n\n        self.generic_visit(node)\n\n    def visit_AnnAssign", ['C03', 'C02']),
    ('C03-try-else-also-from-cur', 'supp/nast.py', "self.make_flow('try-else', [body])", "self.make_flow('try-else', [cur, body])", ['C03']),
    ('C04-keep-partial-loop-memos', 'supp/scope.py', "            for flow, attr in LoopFlow._partial:\n                flow.__dict__.pop(attr, None)", "            for flow, attr in []:\n                flow.__dict__.pop(attr, None)", ['C04', 'C01', 'C02']),
    ('C05-class-scope-exposes-own-names', 'supp/scope.py', "    @property\n    def names(self):\n        # type: () -> t.Mapping[str, Name | MultiName]\n        return self.parent.names\n", "    @property\n    def names(self):\n        # type: () -> t.Mapping[str, Name | MultiName]\n        return self.flow.names\n", ['C05']),
    ('C05-no-local-masking', 'supp/scope.py', "                    outer_names = set(snames).difference(self.scope.locals)", "                    outer_names = set(snames)", ['C05', 'C03']),
    ('C05-ignore-global-declaration', 'supp/scope.py', "        if local and name.name in self.scope.globals:", "        if False and name.name in self.scope.globals:", ['C05', 'C01']),
    ('C06-base-order-not-reversed', 'supp/name.py', "        for b in reversed(self.bases):\n            attrs.update(b._attrs)", "        for b in self.bases:\n            attrs.update(b._attrs)", ['C06']),
    ('C06-drop-self-assignments', 'supp/name.py', "        tables.append(self.cls.scope.top.assigns(self.ctx).get(self, {}))", "        tables.append({})", ['C06']),
    ('C06-self-for-every-param', 'supp/scope.py', "        if arg.idx == [0] and isinstance(self.parent, ClassScope):", "        if isinstance(self.parent, ClassScope):", ['C06']),
    ('C07-level-off-by-one', 'supp/project.py', "        for _ in range(len(package) - len(package.lstrip('.'))):", "        for _ in range(len(package) - len(package.lstrip('.')) + (1 if len(package) - len(package.lstrip('.')) > 1 else 0)):", ['C07']),
    ('C07-init-before-module-file', 'supp/project.py', "        for p in path:\n            mpath = os.path.join(p, tail)\n            for s in SUFFIXES:\n                fname = mpath + s\n                if os.path.exists(fname):\n                    return fname, s in SOURCE_SUFFIXES\n\n            fname = os.path.join(mpath, '__init__.py')\n            if os.path.exists(fname):\n                return fname, True\n", "        for p in path:\n            mpath = os.path.join(p, tail)\n            fname = os.path.join(mpath, '__init__.py')\n            if os.path.exists(fname):\n                return fname, True\n\n        for p in path:\n            mpath = os.path.join(p, tail)\n            for s in SUFFIXES:\n                fname = mpath + s\n                if os.path.exists(fname):\n                    return fname, s in SOURCE_SUFFIXES\n", ['C07']),
    ('C08-no-syntaxerror-mapping', 'supp/linter.py', "    except SyntaxError as e:\n        return [('E01', e.msg, e.lineno, e.offset, None)]", "    except IndentationError as e:\n        return [('E01', e.msg, e.lineno, e.offset, None)]", ['C08']),
    ('C08-no-evaluation-guard', 'supp/evaluator.py', "        if node is None or node in self.nodes:", "        if node is None:", ['C08']),
    ('C09-never-recheck-mtime', 'supp/project.py', "            if m.changed:\n                del self._module_cache[name]", "            if False:\n                del self._module_cache[name]", ['C09']),
    ('C09-context-cache-never-cleared', 'supp/project.py', "        self._context_cache.clear()\n        yield", "        yield", ['C09']),
    ('C10-no-underscore-exemption', 'supp/linter.py', "        if name.name.startswith('_'):\n            continue", "        if name.name.startswith('__'):\n            continue", ['C10']),
    ('C10-exempt-all-parameters', 'supp/linter.py', "        if (isinstance(name, ArgumentName) and\n                isinstance(flow.scope.parent, ClassScope)):", "        if (isinstance(name, ArgumentName)):", ['C10']),
    ('C10-report-class-level-imports-as-W01', 'supp/linter.py', "                w = 'W02'\n                message = 'Unused import: {}'", "                w = 'W02' if isinstance(flow.scope, SourceScope) else 'W01'\n                message = 'Unused import: {}'", ['C10']),
    ('C11-find_id_loc-shift', 'supp/scope.py', "                            pos - source.rfind('\\n', 0, pos) - 1 + shift)", "                            pos - source.rfind('\\n', 0, pos) - 1 + shift + (1 if sl != sl + source.count('\\n', 0, pos) else 0))", ['C11']),
    ('C12-unmark-off-by-one', 'supp/util.py', "    dpos = result.find('.', pos)", "    dpos = result.find('.', pos + 1)", ['C12']),
    ('C12-proposals-not-sorted-for-attributes', 'supp/assistant.py', "    return prefix, sorted(names)", "    return prefix, sorted(names) if not attr else list(names)", ['C12']),
    ('C13-location-compares-line-only', 'supp/util.py', "        return self.location < other.location", "        return self.location[0] < other.location[0]", ['C13', 'C02']),
    ('C14-str8-boundary', 'supp/umsgpack.py', "    if len(obj) <= 31:\n        fp.write(struct.pack(\"B\", 0xa0 | len(obj)) + obj)\n    elif len(obj) <= 2**8-1:", "    if len(obj) <= 32:\n        fp.write(struct.pack(\"B\", 0xa0 | len(obj)) + obj)\n    elif len(obj) <= 2**8-1:", ['C14']),
    ('C14-map16-little-endian', 'supp/umsgpack.py', "        fp.write(b\"\\xde\" + struct.pack(\">H\", len(obj)))", "        fp.write(b\"\\xde\" + struct.pack(\"<H\", len(obj)))", ['C14']),
    ('C14-short-read-accepted', 'supp/umsgpack.py', "    if len(data) < n:\n        raise InsufficientDataException()", "    if len(data) < n and n < 5:\n        raise InsufficientDataException()", ['C14']),
    ('C15-errors-reported-as-ok', 'supp/server.py', "            is_ok = False\n            result = e.__class__.__name__, str(e)", "            is_ok = name == 'eval'\n            result = e.__class__.__name__, str(e)", ['C15']),
    ('C15-server-stops-after-error', 'supp/server.py', "                    result, is_ok = self.process(*args)", "                    result, is_ok = self.process(*args)\n                    if not is_ok and args[0] == 'location':\n                        break", ['C15']),
    ('C16-run-without-lock', 'supp/remote.py', "    def run(self):\n        with self.prepare_lock:\n            # the starter thread clears the handle itself: read it once\n            prepare_thread = self.prepare_thread\n            if prepare_thread:\n                prepare_thread.join()\n\n            if not hasattr(self, 'conn'):\n                self._run()", "    def run(self):\n        prepare_thread = self.prepare_thread\n        if prepare_thread:\n            prepare_thread.join()\n\n        if not hasattr(self, 'conn'):\n            self._run()", ['C16']),
    ('C16-thread-started-outside-lock', 'supp/remote.py', "            self.prepare_thread = Thread(target=self._threaded_run)\n            self.prepare_thread.start()", "            thread = Thread(target=self._threaded_run)\n        self.prepare_thread = thread\n        thread.start()", ['C16']),
    ('C17-set-order-again', 'supp/name.py', "        self.alt_names.sort(key=lambda n: getattr(n, 'declared_at', n.location))", "        self.alt_names = list(set(self.alt_names))", ['C17']),
]


def sh(cmd, **kw):
    return subprocess.run(cmd, shell=True, capture_output=True, text=True, **kw)


def main():
    sel = sys.argv[1:]
    results = []
    for name, f, old, new, checks in M:
        if sel and not any(s in name for s in sel):
            continue
        wt = '/tmp/selfmut_%d' % os.getpid()
        sh('git -C /repo worktree add -q %s HEAD' % wt)
        try:
            path = os.path.join(wt, f)
            src = open(path).read()
            if old not in src:
                results.append((name, 'ANCHOR-NOT-FOUND', '', {}))
                print(name, 'ANCHOR-NOT-FOUND')
                continue
            src2 = src.replace(old, new, 1)
            if 'bisect_left' in new and 'from bisect import bisect\n' in src2:
                src2 = src2.replace('from bisect import bisect\n', 'from bisect import bisect, bisect_left\n')
            open(path, 'w').write(src2)
            t = sh('cd %s && /venv/bin/python -m pytest -q -p no:cacheprovider 2>&1 | tail -1' % wt).stdout.strip()
            tests_ok = '175 passed' in t
            det = {}
            for c in checks:
                r = sh('cd /verif && VERIF_REPO=%s ./check %s quick 2>&1' % (wt, c))
                sigs = [l.strip()[11:] for l in r.stdout.splitlines() if l.strip().startswith('signature:')]
                det[c] = (r.returncode, sigs[:2])
            results.append((name, t, tests_ok, det))
            print(name, '| tests:', t, '|', {c: ('CAUGHT ' + str(v[1]) if v[0] == 1 else 'exit %d' % v[0]) for c, v in det.items()}, flush=True)
        finally:
            sh('git -C /repo worktree remove --force %s; rm -rf %s' % (wt, wt))
    sh('rm -rf /verif/replays/*/viol_*')
    json.dump(results, open('/verif/tools/selfmut_results.json', 'w'), indent=1)


if __name__ == '__main__':
    main()
