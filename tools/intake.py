#!/usr/bin/env python3
"""tools/intake.py <agent worktree> <property id> <k> <seeded name> [extra checks...]

Build-time helper: takes one seeded change written by a sub-agent (<worktree>/_out/<k>/{patch.diff,demo.py,notes.md}),
stores it as /verif/seeded/<name>/, confirms it with tools/seedtest.sh (scratch worktree of /repo HEAD: repository tests,
demo with and without the patch, the property's own quick check and any extra checks) and writes meta.json.
"""
import json
import os
import re
import shutil
import subprocess
import sys


def main():
    wt, pid, k, name = sys.argv[1:5]
    extra = sys.argv[5:]
    src = os.path.join(wt, '_out', k)
    dst = os.path.join('/verif/seeded', name)
    os.makedirs(dst, exist_ok=True)
    for f in ('patch.diff', 'demo.py'):
        shutil.copy(os.path.join(src, f), os.path.join(dst, f))
    notes = open(os.path.join(src, 'notes.md')).read() if os.path.exists(os.path.join(src, 'notes.md')) else ''
    paras = [p.strip() for p in re.split(r'\n\s*\n', notes) if p.strip()]
    paras = [p for p in paras if not p.startswith('#') or len(p) > 80]
    what = paras[0] if paras else ''
    needs = paras[1] if len(paras) > 1 else ''
    for p in paras:
        low = p.lower()
        if 'needs to manifest' in low[:80] or 'what it needs' in low[:80]:
            needs = p
        elif 'what it breaks' in low[:80]:
            what = p
    out = subprocess.run(['/verif/tools/seedtest.sh', dst, pid] + extra, capture_output=True, text=True).stdout
    head = subprocess.run(['git', '-C', '/repo', 'rev-parse', '--short', 'HEAD'], capture_output=True, text=True).stdout.strip()
    meta = {'property': pid,
            'origin': 'written by an independent sub-agent that saw only the property text and a scratch worktree of /repo (nothing from /verif)',
            'what_it_breaks': re.sub(r'\s+', ' ', what), 'what_it_needs_to_manifest': re.sub(r'\s+', ' ', needs),
            'applies_to_repo_commit': head, 'confirmed': {}, 'detected_by': {}}
    for line in out.splitlines():
        if line.startswith('tests:'):
            meta['confirmed']['repository_tests_with_patch'] = line[6:].strip()
        elif line.startswith('demo with patch:'):
            meta['confirmed']['demo_exit_with_patch'] = line.split('exit')[1].split()[0]
        elif line.startswith('demo without patch:'):
            meta['confirmed']['demo_exit_without_patch'] = line.split('exit')[1].split()[0]
        elif re.match(r'^C\d\d: exit=', line):
            cid = line[:3]
            code = int(line.split('exit=')[1].split()[0])
            sigs = [s.strip() for s in line.split('signature:')[1:]]
            meta['detected_by'][cid] = {'exit': code, 'signatures': sigs}
        elif 'PATCH-DOES-NOT-APPLY' in line:
            meta['confirmed']['patch'] = 'does not apply'
    meta['confirmed']['how'] = ('tools/seedtest.sh <dir> <checks>: patch applied to a scratch worktree of /repo HEAD (never to /repo), pytest, '
                                'demo.py with and without the patch, then ./check <id> quick with VERIF_REPO=<worktree>')
    json.dump(meta, open(os.path.join(dst, 'meta.json'), 'w'), indent=1)
    print(name, json.dumps(meta['confirmed'].get('repository_tests_with_patch')), 'demo', meta['confirmed'].get('demo_exit_with_patch'),
          meta['confirmed'].get('demo_exit_without_patch'), {c: (v['exit'], v['signatures'][:2]) for c, v in meta['detected_by'].items()})


main()
