#!/bin/bash
# tools/matrix.sh [pattern] : every seeded change against the quick check of its own property (build-time helper)
cd /verif
for d in seeded/${1:-*}/; do
    m=$(basename $d)
    pid=$(python3 -c "import json;print(json.load(open('$d/meta.json'))['property'])")
    out=$(tools/seedtest.sh $d $pid 2>&1 | grep -E "^C[0-9]+: exit|PATCH|^tests|demo with")
    echo "$m $(echo "$out" | tr '\n' '|')"
done
