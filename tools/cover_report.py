#!/usr/bin/env python3
"""tools/cover_report.py <dir> : lines of /repo/supp never executed by the runs that wrote <dir>/*.json (VERIF_COVER=<dir>).
Build-time aid for finding generator gaps; not part of any registered command."""
import glob, json, os, sys
repo = os.environ.get('VERIF_REPO', '/repo')
covered = set()
for f in glob.glob(os.path.join(sys.argv[1], '*.json')):
    covered.update(tuple(x) for x in json.load(open(f)))
total = miss = 0
for path in sorted(glob.glob(os.path.join(repo, 'supp', '*.py'))):
    rel = os.path.basename(path)
    src = open(path).read()
    code = compile(src, path, 'exec')
    lines = set()
    stack = [code]
    while stack:
        c = stack.pop()
        for _, _, ln in c.co_lines():
            if ln:
                lines.add(ln)
        stack.extend(k for k in c.co_consts if hasattr(k, 'co_lines'))
    text = src.splitlines()
    missing = sorted(l for l in lines if (rel, l) not in covered and not text[l - 1].lstrip().startswith(('def ', 'class ', '@', '"""', '#')))
    total += len(lines); miss += len(missing)
    if missing:
        print('== %s: %d of %d executable lines never run' % (rel, len(missing), len(lines)))
        for l in missing:
            print('   %4d  %s' % (l, text[l - 1][:110]))
print('TOTAL %d / %d never run' % (miss, total))
