#!/usr/bin/env python3
"""Validate MANIFEST.json and every evidence/*.json against the schemas (run with python3-vt)."""
import glob, json, sys
import jsonschema
ok = True
def check(path, schema):
    global ok
    try:
        jsonschema.validate(json.load(open(path)), json.load(open(schema)))
        print('ok   ', path)
    except Exception as e:
        ok = False
        print('FAIL ', path, str(e)[:300])
check('/verif/MANIFEST.json', '/root/.vp/MANIFEST.schema.json')
for p in sorted(glob.glob('/verif/evidence/*.json')):
    check(p, '/root/.vp/EVIDENCE.schema.json')
sys.exit(0 if ok else 1)
