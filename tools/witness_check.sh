#!/bin/bash
# usage: tools/witness_check.sh <repo-worktree>  : replays every known_findings witness against that tree
cd /verif
python3 - "$1" <<'PY'
import json, subprocess, sys, os, tempfile
repo = sys.argv[1]
d = json.load(open('/verif/known_findings.json'))
for e in d['entries']:
    if 'witness' not in e: continue
    f = tempfile.NamedTemporaryFile('w', suffix='.json', delete=False)
    json.dump({'case': e['witness']}, f); f.close()
    r = subprocess.run(['./check', e['property'], '--replay', f.name], env=dict(os.environ, VERIF_REPO=repo), capture_output=True, text=True)
    os.unlink(f.name)
    sigs = [l.strip() for l in r.stdout.splitlines() if 'signature' in l]
    print(e['status'], e['property'], e.get('commit') or e.get('id'), 'exit', r.returncode, sigs[:2])
PY
