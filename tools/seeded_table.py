#!/usr/bin/env python3
"""tools/seeded_table.py <suffix letters e.g. c d> : markdown table of seeded changes from meta.json (build-time helper)."""
import glob, json, os, re, sys
sfx = sys.argv[1:]
rows = []
for p in sorted(glob.glob('/verif/seeded/*/meta.json')):
    name = os.path.basename(os.path.dirname(p))
    m = re.match(r'^C\d\d([a-z]?)-\d$', name)
    if not m or (m.group(1) or 'a') not in sfx:
        continue
    d = json.load(open(p))
    own = d['property']
    det = d.get('detected_by', {})
    caught = [c for c, v in sorted(det.items()) if v.get('exit') == 1]
    silent = [c for c, v in sorted(det.items()) if v.get('exit') == 0]
    sig = ''
    for c in ([own] if own in caught else []) + caught:
        if det[c].get('signatures'):
            sig = det[c]['signatures'][0]
            break
    needs = re.sub(r'\*\*.*?\*\*', '', d.get('what_it_needs_to_manifest', '')).strip()
    note = ' (neutralised, see text)' if d.get('status') else (' (patch no longer applies)' if d.get('final_matrix', {}).get('patch') else '')
    rows.append('| %s | %s | %s | %s | `%s`%s |' % (name, needs[:140].replace('|', '/'), ', '.join(caught) or '-', ', '.join(silent) or '-', sig, note))
print('| seeded change | needs, to manifest | caught by (quick tier) | also run, silent | first signature |')
print('|---|---|---|---|---|')
print('\n'.join(rows))
