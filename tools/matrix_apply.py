#!/usr/bin/env python3
"""tools/matrix_apply.py <matrix log> : write the results of tools/matrix.sh into seeded/*/meta.json (build-time helper)."""
import json, os, re, sys
for line in open(sys.argv[1]):
    line = line.rstrip('\n')
    if not line or line == 'done':
        continue
    name, _, rest = line.partition(' ')
    p = os.path.join('/verif/seeded', name, 'meta.json')
    if not os.path.exists(p):
        continue
    m = json.load(open(p))
    parts = rest.split('|')
    final = {}
    for part in parts:
        part = part.strip()
        if part.startswith('tests:'):
            final['repository_tests_with_patch'] = part[6:].strip()
        elif part.startswith('demo with patch:'):
            final['demo_exit_with_patch'] = part.split('exit')[1].split()[0]
        elif 'PATCH-DOES-NOT-APPLY' in part:
            final['patch'] = 'does not apply to HEAD any more (a later fix: commit touched the same lines)'
        elif re.match(r'^C\d\d: exit=', part):
            cid = part[:3]
            code = int(part.split('exit=')[1].split()[0])
            sigs = [s.strip() for s in part.split('signature:')[1:]]
            m.setdefault('detected_by', {})[cid] = {'exit': code, 'signatures': sigs}
    m['final_matrix'] = final
    json.dump(m, open(p, 'w'), indent=1)
print('ok')
