#!/bin/bash
# tools/seedtest.sh <dir containing patch.diff [demo.py]> <check ids...>
# Applies the patch to a scratch worktree of /repo HEAD (never to /repo), runs the repo tests, the demo and the given
# checks (quick tier, VERIF_REPO pointing at the worktree), then removes the worktree.
d=$(readlink -f "$1"); shift
wt=/tmp/mut_$$
git -C /repo worktree add -q $wt HEAD || exit 2
trap 'git -C /repo worktree remove --force '$wt' >/dev/null 2>&1; rm -rf '$wt'' EXIT
if ! git -C $wt apply "$d/patch.diff"; then echo "PATCH-DOES-NOT-APPLY"; exit 2; fi
echo "tests: $(cd $wt && /venv/bin/python -m pytest -q -p no:cacheprovider 2>&1 | tail -1)"
if [ -f "$d/demo.py" ]; then
    mkdir -p $wt/_seed/x && cp "$d/demo.py" $wt/_seed/x/demo.py
    (cd $wt && timeout 300 /venv/bin/python _seed/x/demo.py >/tmp/demo_$$.out 2>&1); echo "demo with patch: exit $?  $(tail -1 /tmp/demo_$$.out | cut -c1-160)"
    (cd $wt && git stash -q && timeout 300 /venv/bin/python _seed/x/demo.py >/tmp/demo_$$.out 2>&1; echo "demo without patch: exit $?"; git stash pop -q)
    rm -f /tmp/demo_$$.out
fi
cd /verif
for id in "$@"; do
    out=$(VERIF_REPO=$wt ./check $id quick 2>&1)
    code=$?
    echo "$id: exit=$code $(echo "$out" | grep -E '^  signature' | head -3 | tr '\n' ' ')"
done

