#!/usr/bin/env python3
"""tools/addknown.py '<json entry>' : append an entry to known_findings.json (build-time helper; checks never write it)."""
import json, sys
p = '/verif/known_findings.json'
d = json.load(open(p))
e = json.loads(sys.argv[1])
d['entries'] = [x for x in d['entries'] if not (x.get('id') and x.get('id') == e.get('id'))]
d['entries'].append(e)
json.dump(d, open(p, 'w'), indent=1)
print('entries:', len(d['entries']))
