"""C11 - every reported position points at the identifier it names."""
import ast
import os
import random
import re

from vlib import core, corpus, suppview, layout
from vlib.core import Shard, Found

PROPERTY = 'C11'
LEVEL = 'exploration'
RULE = ('all bindings (SourceScope.all_names) of real files and of generated layout variants (relayout printer + import/def/class '
        'shape templates: multi-name and parenthesised multi-line imports, aliases equal to a module or member name, decorated '
        'and async definitions, extra spaces/tabs, backslash continuations, several statements per line, nested tuple and starred '
        'targets); per binding on an ASCII-only line: line within file, text at (line, col) is exactly the identifier with '
        'identifier boundaries (the `except` keyword for handler names, `*` for star imports); lint W01/W02 and location() must '
        'report the same position for the same binding. Non-trivial binding: import, def, class or except-name (recovered by '
        'text search), or one sharing its line with another statement; distinct by (text hash, position).')
ASSUMPTIONS = ['non-ASCII lines are skipped (ast columns are byte offsets there), as the property states',
               'star-imported names are expected at the `*` of their import statement']

IDENT = re.compile(r'[A-Za-z0-9_]')


def text_ok(lines, name, kind, da, is_star):
    l, c = da
    if not (1 <= l <= len(lines)):
        return 'line-outside-file'
    line = lines[l - 1]
    if not line.isascii():
        return None
    if is_star:
        return None if line[c:c + 1] == '*' else 'star-position-not-at-star'
    if kind == 'AssignedName' and line[c:c + 6] == 'except' and not IDENT.match(line[c + 6:c + 7] or ' '):
        return None
    txt = line[c:c + len(name)]
    if txt != name:
        return 'text-mismatch'
    if c > 0 and IDENT.match(line[c - 1]):
        return 'inside-longer-identifier'
    if c + len(name) < len(line) and IDENT.match(line[c + len(name)]):
        return 'inside-longer-identifier'
    return None


_other = {}


def other_file_position(path, loc):
    """a position reported in ANOTHER file must be (1, 0) (the module) or the start of an identifier / except / * token there"""
    if loc == (1, 0):
        return None
    if path not in _other:
        if len(_other) > 200:
            _other.clear()
        src = corpus.read(path)
        if src is None:
            _other[path] = None
        else:
            try:
                _other[path] = (set(layout.name_token_ordinals(src)), core.plines(src))
            except Exception:
                _other[path] = None
    info = _other[path]
    if info is None:
        return None
    toks, lines = info
    if not (1 <= loc[0] <= len(lines)) or loc[1] < 0:
        return 'outside-file'
    if not lines[loc[0] - 1].isascii():
        return None
    if loc not in toks:
        return 'not-a-token-start'
    return None


def check_source(sh, src, filename, origin, nloc, rnd):
    """-> (signature, detail) or None"""
    from supp import assistant
    proj = suppview.project()
    try:
        s, scope = suppview.analyse(src, filename, proj)
    except RecursionError:
        sh.count('skipped:recursion')
        return None
    except Exception as e:
        sh.count('skipped:analysis-crash-%s' % type(e).__name__)
        return None
    lines = core.plines(src)
    # statements per line, to mark shared lines
    per_line = {}
    for n in ast.walk(s.tree):
        if isinstance(n, ast.stmt):
            per_line[n.lineno] = per_line.get(n.lineno, 0) + 1
    positions = {}
    for flow, name in scope.all_names:
        kind = type(name).__name__
        da = tuple(name.declared_at)
        star = bool(getattr(name, 'is_star', False))
        recovered = kind in ('ImportedName', 'FuncScope', 'ClassScope') or (kind == 'AssignedName' and lines[da[0] - 1][da[1]:da[1] + 6] == 'except' if 1 <= da[0] <= len(lines) else False)
        shared = per_line.get(da[0], 0) > 1
        sh.case((core.digest(src), da, name.name), recovered or shared,
                {'origin': origin, 'name': name.name, 'kind': kind, 'at': da, 'line': lines[da[0] - 1][:100] if 1 <= da[0] <= len(lines) else None})
        sh.count('bindings:' + kind)
        bad = text_ok(lines, name.name, kind, da, star)
        if bad:
            return ('all_names:%s:%s' % (bad, kind), '%s %r reported at %s; line there: %r' % (kind, name.name, da, lines[da[0] - 1][:120] if 1 <= da[0] <= len(lines) else None))
        if not star:
            positions.setdefault(name.name, set()).add(da)
    # lint agrees
    try:
        lv = suppview.lint_view(proj, src, filename)
    except Exception as e:
        sh.count('skipped:lint-crash-%s' % type(e).__name__)      # C08's subject
        lv = {'W01': (), 'W02': ()}
    for code in ('W01', 'W02'):
        for (l, c, n) in lv[code]:
            sh.count('lint-positions')
            if (l, c) not in positions.get(n, ()):
                return ('lint-position-not-a-binding-of-that-name:%s' % code, '%s for %r at %s; bindings of that name are at %s' % (code, n, (l, c), sorted(positions.get(n, ()))))
    # location agrees: ask from a sample of reads
    reads = suppview.load_names(s.tree)
    rnd.shuffle(reads)
    tokens = None
    star_pos = {tuple(nm.declared_at) for fl, nm in scope.all_names if getattr(nm, 'is_star', False)}
    global_pos = set()
    for fn_node in ast.walk(s.tree):
        if isinstance(fn_node, (ast.FunctionDef, ast.AsyncFunctionDef)):
            gl = set()
            for st_ in ast.walk(fn_node):
                if isinstance(st_, ast.Global):
                    gl.update(st_.names)
            if gl:
                for st_ in ast.walk(fn_node):
                    if isinstance(st_, ast.Name) and st_.id in gl and isinstance(st_.ctx, ast.Store):
                        global_pos.add((st_.lineno, st_.col_offset))
                    elif isinstance(st_, (ast.FunctionDef, ast.ClassDef, ast.AsyncFunctionDef)) and st_.name in gl:
                        # `global K` + `class K:` / `def K():` in a function: the name follows the keyword
                        import re
                        m = re.compile(r'(?:def|class)[ \t\f]+(%s)\b' % re.escape(st_.name)).search(lines[st_.lineno - 1], st_.col_offset)
                        if m:
                            global_pos.add((st_.lineno, m.start(1)))
    for n in reads[:nloc]:
        if 1 <= n.lineno <= len(lines) and not lines[n.lineno - 1].isascii():
            continue
        try:
            res = assistant.location(proj, src, (n.lineno, n.col_offset + len(n.id)), filename)
        except Exception:
            sh.count('location-raised')     # C08's subject
            continue
        for r in res:
            for e in (r if isinstance(r, list) else [r]):
                sh.count('location-positions')
                loc = tuple(e['loc'])
                if e['file'] == filename:
                    if loc == (1, 0):
                        continue        # the module itself
                    if tokens is None:
                        tokens = set(layout.name_token_ordinals(src))
                    if 1 <= loc[0] <= len(lines) and not lines[loc[0] - 1].isascii():
                        continue
                    # bindings made under a `global` declaration are not in all_names; every reported position
                    # must still be the start of an identifier / `except` / `*` token
                    if loc not in tokens:
                        return ('location-position-not-a-token-start', 'location() from %s at %s reports %s (line: %r)' % (
                            n.id, (n.lineno, n.col_offset), loc, lines[loc[0] - 1][:100] if 1 <= loc[0] <= len(lines) else None))
                    if not any(loc in ps for ps in positions.values()) and loc not in star_pos and loc not in global_pos:
                        return ('location-position-not-a-binding', 'location() from %s at %s reports %s, which is no binding position of this file (line: %r)' % (
                            n.id, (n.lineno, n.col_offset), loc, lines[loc[0] - 1][:100] if 1 <= loc[0] <= len(lines) else None))
                elif e['file']:
                    if not os.path.exists(e['file']):
                        return ('location-file-missing', repr(e))
                    bad = other_file_position(e['file'], loc)
                    if bad:
                        return ('location-position-in-other-file:' + bad, 'location() from %s at %s reports %s in %s' % (n.id, (n.lineno, n.col_offset), loc, e['file']))
    return None


# ---------------------------------------------------------------------------
# shape templates stressing the text-search based positions

def shape_strategy():
    from hypothesis import strategies as st
    ws = st.sampled_from([' ', '  ', '\t', ' \t '])
    name = st.sampled_from(['a', 'b', 'ab', 'os', 'path', 'fa', 'fx_mod', 'sub', 'x1', 'as_', 'imp', 'f', 'C', 'deff', 'classy', 'e', 'exc'])
    mod = st.sampled_from(['os', 'os.path', 'fx_mod', 'fx_pkg.sub', 'json', 'collections'])
    member = {'os': ['path', 'sep', 'getcwd'], 'os.path': ['join', 'sep'], 'fx_mod': ['fa', 'fb', 'fx_func'], 'fx_pkg.sub': ['sa', 'sb'],
              'json': ['loads', 'dumps'], 'collections': ['OrderedDict', 'deque']}

    @st.composite
    def imp(draw):
        k = draw(st.integers(0, 5))
        w = draw(ws)
        if k == 0:
            ms = draw(st.lists(mod, min_size=1, max_size=3, unique=True))
            parts = []
            cont = st.sampled_from([' ', '\t', ' \\\n   ', ' \\\n'])       # `import os.path as \` + alias on the next line
            for m in ms:
                if draw(st.booleans()):
                    parts.append('%s%sas%s%s' % (m, draw(cont), draw(cont), draw(name)))
                else:
                    parts.append(m)
            return 'import%s%s' % (w, (',' + draw(ws)).join(parts))
        m = draw(mod)
        mems = draw(st.lists(st.sampled_from(member[m]), min_size=1, max_size=3, unique=True))
        parts = []
        # inside parentheses / after a backslash the `as` and the alias may sit on later lines than the member name
        gap = {3: st.sampled_from([' ', '  ', '\n        ', '\n']), 4: st.sampled_from([' ', ' \\\n  ', ' \\\n'])}.get(k, ws)
        for x in mems:
            alias = draw(st.one_of(st.none(), name, st.just(m.split('.')[0]), st.just(x)))
            parts.append(x if alias is None else '%s%sas%s%s' % (x, draw(gap), draw(gap), alias))
        if k in (1, 2):
            return 'from%s%s%simport%s%s' % (w, m, draw(ws), draw(ws), (',' + draw(ws)).join(parts))
        if k == 3:
            sep = ',\n' + ' ' * draw(st.integers(0, 8))
            return 'from %s import (%s%s%s)' % (m, draw(st.sampled_from(['', '\n    ', ' '])), sep.join(parts), draw(st.sampled_from(['', ',', '\n', ',\n'])))
        if k == 4:
            return 'from %s import %s' % (m, (', \\\n    ').join(parts))
        return 'from %s import *' % m

    @st.composite
    def deff(draw):
        n = draw(name)
        k = draw(st.integers(0, 10))
        w = draw(ws)
        params = draw(st.lists(name, max_size=3, unique=True))
        deco = draw(st.sampled_from(['', '@staticmethod\n', '@a.b(c)\n', '@x\n@y\n']))
        head = draw(st.sampled_from(['def', 'async def', 'async  def']))
        if k <= 2:
            return '%s%s%s%s%s(%s)%s:%spass' % (deco, head, w, n, draw(st.sampled_from(['', ' '])), (',' + draw(ws)).join(params), draw(st.sampled_from(['', ' '])), draw(st.sampled_from([' ', '\n    '])))
        if k == 3:
            return '%sclass%s%s%s:%spass' % (deco if '@static' not in deco else '', w, n, draw(st.sampled_from(['', '()', '(object)', ' (object, )'])), draw(st.sampled_from([' ', '\n    '])))
        if k == 4:
            # the name on a continuation line, also flush left (column 0)
            return 'def \\\n%s%s(%s): pass' % (draw(st.sampled_from(['', '', '    ', ' '])), n, ', '.join(params))
        if k == 5:
            return 'class \\\n%s%s: pass' % (draw(st.sampled_from(['', '  ', '\t'])), n)
        if k == 7:
            # the name directly followed by a line continuation
            return draw(st.sampled_from(['def %s\\\n  (%s): pass', 'async def %s\\\n(%s): pass'])) % (n, ', '.join(params))
        if k == 8:
            return draw(st.sampled_from(['class %s\\\n  (object): pass', 'class %s\\\n: pass', 'class %s\\\n  : %s = 1' % ('%s', n)])) % n
        if k == 9:
            # PEP 695 type-parameter lists (name directly followed by `[`; whatever supp reports for the parameters must be an identifier)
            tp = draw(st.sampled_from(['T', 'T, U', 'T, *Ts', 'T, * Ts, ** P', '*Ts', '**P', 'T: int', 'T: (int, str)']))
            if draw(st.booleans()):
                return 'def %s[%s](%s): return %s' % (n, tp, ', '.join(params), n)
            return 'class %s[%s]: pass' % (n, tp)
        if k == 10:
            # match statement: captures of every pattern kind, the mapping rest in several spellings
            a, b, c = draw(name), draw(name), draw(name)
            rest = draw(st.sampled_from(['**%s}', '**%s }', '** %s}', '**%s,}', '**%s , }', '**%s\n    }']))
            return 'match %s:\n    case {"k": %s, %s: pass\n    case [%s, *%s] | (%s, %s): pass\n    case C(%s, y=%s) as %s: pass\n    case _: pass' % (
                n, a, rest % b, a, b, a, b, c, a, b)
        return 'def %s(%s=%s, *%s, **%s): return %s' % (n, 'p', n, 'va', 'kw', n)

    @st.composite
    def assign(draw):
        k = draw(st.integers(0, 5))
        a, b, c = draw(name), draw(name), draw(name)
        if k == 0:
            return '(%s, (%s, *%s)) = x' % (a, b, c)
        if k == 1:
            return '%s = %s = \\\n   %s' % (a, b, c)
        if k == 2:
            return 'for %s, (%s, %s) in x: pass' % (a, b, c)
        if k == 3:
            return 'with x as %s, y as (%s, %s): pass' % (a, b, c)
        if k == 4:
            return 'try: pass\nexcept%sE%sas%s%s: pass\nexcept (A, B) as %s: pass' % (draw(ws), draw(ws), draw(ws), a, b)
        if draw(st.booleans()):
            # annotated assignment whose target is parenthesised (also over several lines): the statement does not start at the name
            return draw(st.sampled_from(['(%s): int = 1', '( %s ): int = 1', '(\n    %s\n): int = 2', '((%s)): str = ""'])) % a
        return '[%s for %s in x if (%s := %s)]; %s: int = 1' % (a, a, b, a, c)

    stmt = st.one_of(imp(), imp(), deff(), assign())

    @st.composite
    def module(draw):
        stmts = draw(st.lists(stmt, min_size=1, max_size=6))
        out = []
        i = 0
        while i < len(stmts):
            s = stmts[i]
            if '\n' not in s and not s.startswith(('def', 'class', 'async', '@', 'for', 'with', 'try')) and i + 1 < len(stmts) \
                    and '\n' not in stmts[i + 1] and not stmts[i + 1].startswith(('def', 'class', 'async', '@', 'for', 'with', 'try')) and draw(st.booleans()):
                out.append(s + draw(st.sampled_from(['; ', ';', ' ;'])) + stmts[i + 1])
                i += 2
            else:
                out.append(s)
                i += 1
            if draw(st.integers(0, 9)) == 0:
                out.append(draw(st.sampled_from(['\x0c', '# page\x0cbreak', '\x0c# x', "ff = 'a\x0cb'"])))     # a form feed is no line break
        return draw(st.sampled_from(['\n', '\n', '\n', '\r\n'])).join(out) + '\n'
    return module()


def w_files(job):
    files, seed, nloc, nvar = job
    sh = Shard()
    rnd = random.Random(seed)
    for path in files:
        src = corpus.read(path)
        if src is None:
            continue
        tree, why = corpus.parse_in_domain(src, path)
        if tree is None:
            sh.count('file-skipped:' + why.split(':')[0])
            continue
        sh.count('files')
        texts = [('verbatim', src)]
        for i in range(nvar):
            try:
                v = layout.relayout(src, rnd)
                if layout.same_ast(src, v):
                    texts.append(('relayout', v))
            except Exception:
                sh.count('variant-printer-failed')
        for label, text in texts:
            bad = check_source(sh, text, path, '%s:%s' % (label, os.path.relpath(path, '/')), nloc, rnd)
            if bad:
                sig, detail = bad

                def still(cand, sig=sig, path=path):
                    b = check_source(Shard(), cand, path, 'min', 10 ** 6, random.Random(0))
                    return bool(b) and b[0] == sig
                small = text
                try:
                    if len(text) < 80000:
                        small = core.minimise_lines(text, still, max_steps=150)
                except Exception:
                    pass
                sh.violation(sig, {'src': small, 'filename': path}, detail)
                break
    return sh.result()


def w_shapes(job):
    idx, seed, n = job
    sh = Shard()
    fn = suppview.filename_for(False)

    def prop(src):
        try:
            ast.parse(src)
        except SyntaxError:
            sh.count('discard:syntax')
            return
        sh.count('shape-modules')
        bad = check_source(sh, src, fn, 'shape', 10 ** 6, random.Random(0))
        if bad and bad[0] not in sh.excluded:
            raise Found(bad[0], {'src': src, 'filename': fn}, bad[1])
    def minimise(f):
        def still(cand):
            try:
                ast.parse(cand)
            except SyntaxError:
                return False
            b = check_source(Shard(), cand, fn, 'min', 10 ** 6, random.Random(0))
            return bool(b) and b[0] == f.signature
        small = core.minimise_lines(f.case['src'], still, max_steps=60)
        b = check_source(Shard(), small, fn, 'min', 10 ** 6, random.Random(0))
        return Found(f.signature, {'src': small, 'filename': fn}, b[1] if b else f.detail)
    # Hypothesis' own shrinker re-analyses every candidate and can spend its full five minutes per signature: line ddmin instead
    core.hyp_search(sh, prop, shape_strategy(), seed, n, shrink=False, max_rounds=6, minimise=minimise, budget_s=60)
    return sh.result()


CROSS_TARGET = '''import os


class Wide(object):
    alpha = 1

    def method(self):
        self.inst = 2
        return self

    class Inner(object):
        deep = 3


def helper(value):
            nested_name = value
            return Wide()
'''


def w_crossfile(job):
    """go-to-definition into ANOTHER file whose definition sits on the same line NUMBER as the cursor, right of the cursor column"""
    import tempfile
    import shutil
    sh = Shard()
    root = tempfile.mkdtemp(prefix='c11x_')
    try:
        with open(os.path.join(root, 'crosstarget.py'), 'w') as f:
            f.write(CROSS_TARGET)
        from supp.project import Project
        from supp import assistant
        tree = ast.parse(CROSS_TARGET)
        exprs = {'alpha': 'W.alpha', 'method': 'W().method', 'inst': 'W().method().inst', 'Inner': 'W.Inner', 'deep': 'W.Inner.deep',
                 'helper': 'h', 'Wide': 'W'}
        targets = []
        for node in ast.walk(tree):
            if isinstance(node, ast.ClassDef):
                targets.append((node.name, node.lineno))
            elif isinstance(node, ast.FunctionDef):
                targets.append((node.name, node.lineno))
            elif isinstance(node, ast.Assign):
                t = node.targets[0]
                targets.append((t.attr if isinstance(t, ast.Attribute) else t.id, node.lineno))
        for name, line in targets:
            expr = exprs.get(name)
            if not expr:
                continue
            for pad in (0, 1):
                head = ['from crosstarget import Wide as W, helper as h'] + ['#'] * (line - 2 + pad)
                src = '\n'.join(head + [expr]) + '\n'
                fn = os.path.join(root, 'probe.py')
                for col in range(max(1, len(expr) - len(name)), len(expr) + 1):
                    pos = (len(head) + 1, col)
                    sh.case((src, pos), True, {'probe': expr, 'cursor': pos, 'target_line_in_other_file': line})
                    sh.count('cross-file-probes')
                    try:
                        res = assistant.location(Project([root]), src, pos, fn)
                    except Exception:
                        sh.count('location-raised')
                        continue
                    for r in res:
                        for e in (r if isinstance(r, list) else [r]):
                            if e['file'] and e['file'] != fn:
                                bad = other_file_position(e['file'], tuple(e['loc']))
                                txt_ok = True
                                if not bad and tuple(e['loc']) != (1, 0):
                                    l, c = e['loc']
                                    tl = core.plines(CROSS_TARGET)[l - 1]
                                    txt_ok = tl[c:c + len(name)] == name or tl[c:c + 4] == 'self'
                                if bad or not txt_ok:
                                    sh.violation('location-position-in-other-file:%s' % (bad or 'wrong-identifier'),
                                                 {'src': src, 'filename': fn, 'cross': True, 'pos': list(pos)},
                                                 'probe %r cursor %s: reported %s in crosstarget.py (definition of %s is on line %d)' % (expr, pos, e['loc'], name, line))
                                    return sh.result()
    finally:
        shutil.rmtree(root, ignore_errors=True)
    return sh.result()


def run(run):
    files = corpus.sample(core.derive_seed(run.seed, 'c11f'), run.pick(70, 1750), include_repo=True, max_bytes=run.pick(60000, None))
    run.pmap(w_files, [(s, core.derive_seed(run.seed, 'c11', i), run.pick(25, 200), run.pick(1, 4)) for i, s in enumerate(corpus.shards(files, 16))])
    run.pmap(w_shapes, [(i, core.derive_seed(run.seed, 'c11s', i), run.pick(80, 2500)) for i in range(16)])
    run.pmap(w_crossfile, [0])
    d = run.counters.get('discard:syntax', 0)
    m = run.counters.get('shape-modules', 0)
    run.extra['shape_discard_rate'] = round(d / max(1, d + m), 4)


def replay(case):
    if case.get('cross'):
        return w_crossfile(0)['violations']
    fn = case.get('filename') or suppview.filename_for(False)
    bad = check_source(Shard(), case['src'], fn, 'replay', 10 ** 6, random.Random(0))
    if bad:
        return [{'signature': bad[0], 'case': case, 'detail': bad[1]}]
    return []


KNOWN = {}
