"""C01 - names bound at run time are visible (no false E02/E42; completion offers the identifier).

Generator: vlib.gen.programs('c01') (full grammar).  Oracle: CPython itself, via dynref in abort
(faithful) mode over every decision sequence up to a cap: every read that succeeded in >= 1 execution
must be visible to supp through lint, assist and names_at.  One-way by design.
"""
import ast

from vlib import core, dynref, suppview
from vlib.core import Shard, Found
from . import dyn_common
from .dyn_common import Dyn

PROPERTY = 'C01'
LEVEL = 'exploration'
RULE = ('Hypothesis programs from the C01 grammar (vlib/gen/programs.py, profile c01); per program dynref enumerates '
        'decision sequences (branches, 0..2 loop trips, raise/no-raise; DFS with replay, cap per tier) in faithful abort '
        'mode; every read that succeeded in >= 1 execution is checked against lint (no E02/E42), assist (identifier '
        'offered) and fresh names_at. Non-trivial program: >= 1 checked read whose value came from a parameter, a '
        'compound-statement target, an import, a comprehension/walrus binding, a def/class, or from another scope; '
        'distinct by source text.')
ASSUMPTIONS = ['CPython 3.12 executes the instrumented program like the original up to the injected helpers (dynref self-test each run)',
               'loop bound 2, call depth 3, decision cap 60 per execution',
               'helpers use()/risky() are plain calls in the text; reads of those two names are not checked']

COMPOUND_KINDS = {'param', 'for', 'with', 'except', 'comp', 'walrus', 'import', 'star', 'def', 'class', 'annassign'}


@core.crash_guard({'checked_reads': 0, 'nontrivial': True, 'runs': 0, 'exhaustive': False, 'skipped': None})
def check_program(prog, cap, stats=None):
    """Returns (problems, info). problems: list of (signature, detail)."""
    from supp import assistant
    src = prog['src']
    info = {'checked_reads': 0, 'nontrivial': False, 'runs': 0, 'exhaustive': False, 'skipped': None}
    try:
        compile(src, '<gen>', 'exec')
    except SyntaxError as e:
        info['skipped'] = 'syntax:' + str(e.msg)
        return [], info
    try:
        d = Dyn(prog, 'abort', cap)
    except dynref.Unsupported as e:
        info['skipped'] = 'unsupported:' + str(e)
        return [], info
    info['runs'] = d.res['runs']
    info['exhaustive'] = d.exhaustive
    info['endings'] = d.res['endings']
    proj = suppview.project()
    lv = suppview.lint_view(proj, src, d.filename)
    problems = []
    if lv['E01']:
        problems.append(('lint-E01-on-valid-program', 'lint reports %r for a program CPython compiles' % (lv['E01'],)))
        return problems, info
    loops = None
    for rid, pos, name, outcomes in d.reads():
        sites = sorted({s for oc, s in outcomes if oc == 'ok'}, key=str)
        if not sites:
            continue
        info['checked_reads'] += 1
        kinds = sorted({d.site_kind(s) for s in sites})
        rel = 'same' if all(d.site_scope(s) == d.ins.read_scope[rid] for s in sites if s in d.ins.sites) else 'outer'
        if any(k in COMPOUND_KINDS for k in kinds) or rel == 'outer':
            info['nontrivial'] = True
        key = (pos[0], pos[1], name)
        tag = '%s:%s' % ('+'.join(kinds), rel)
        special = special_cause(d, rid, pos, name, sites)
        if key in lv['E42']:
            problems.append(('E42:%s:%s' % (tag, suppview.parent_context(d.tree, pos)),
                             'read %s at %s succeeds at run time (sites %s) but lint says UNKNOWN NAME' % (name, pos, sites)))
            continue
        fresh = None
        if key in lv['E02']:
            fresh = suppview.fresh_read(src, d.filename, proj, pos)
            if isinstance(fresh, dict):
                if loops is None:
                    loops = dyn_common.in_loop_positions(d.tree)
                where = 'loop' if pos in loops else 'noloop'
                problems.append(('E02-order-dependent:%s' % where,
                                 'lint reports Undefined name %s at %s although the same read queried first on a fresh analysis resolves to %s' % (name, pos, fresh['alts'])))
            elif special:
                problems.append((special, 'lint: Undefined name %s at %s; run-time sites %s' % (name, pos, sites)))
            else:
                problems.append(('E02:%s:%s' % (tag, suppview.parent_context(d.tree, pos)),
                                 'read %s at %s succeeds at run time (sites %s) but lint says Undefined name' % (name, pos, sites)))
            continue
        # fresh names_at must contain it
        fresh = suppview.fresh_read(src, d.filename, proj, pos)
        if not isinstance(fresh, dict):
            problems.append((special or 'names_at-missing:%s:%s' % (tag, suppview.parent_context(d.tree, pos)),
                             'read %s at %s: fresh names_at gives %r' % (name, pos, fresh)))
            continue
        # completion at the end of the identifier offers it
        try:
            prefix, props = assistant.assist(proj, src, (pos[0], pos[1] + len(name)), d.filename)
        except Exception as e:
            problems.append(('assist-raises:%s' % type(e).__name__, 'assist at end of %s %s: %r' % (name, pos, e)))
            continue
        if name not in props:
            problems.append((special or 'assist-missing:%s:%s' % (tag, suppview.parent_context(d.tree, pos)),
                             'assist at end of %s at %s returns prefix=%r without the identifier (%d proposals)' % (name, pos, prefix, len(props))))
    return problems, info


def special_cause(d, rid, pos, name, sites):
    """Root-cause signatures of the two listed findings (decided from the dynamic facts, not from the failure)."""
    ins = d.ins
    real = [s for s in sites if s in ins.sites]
    if ins.module_level(ins.read_scope[rid]) and real and len(real) == len(sites) and all(s in ins.global_sites for s in real):
        return 'global-binding-invisible-at-module-level'
    if annotation_after_binding(ins, pos, sites):
        return 'annotation-evaluated-after-binding'
    own = d.__dict__.setdefault('_own_iter', None)
    if own is None:
        own = d._own_iter = dyn_common.own_iterable_reads(d.tree)
    if pos in own and all(ins.sites.get(s, ('', ''))[1] == 'comp' for s in sites):
        return 'comprehension-variable-read-in-its-own-iterable'
    # several listed causes at once: every run-time provider of the read is invisible for a listed reason of its own - a binding
    # routed to the module by a global declaration (read at module level), a target of a later clause or a walrus further right in
    # the same comprehension (previous trip)
    prev = d.__dict__.get('_prev_trip')
    if prev is None:
        prev = d._prev_trip = dyn_common.previous_trip_walrus_reads(d.tree)
    if real and len(real) == len(sites) and (pos in own or pos in prev):
        module_read = ins.module_level(ins.read_scope[rid])
        explained = [s for s in real if (module_read and s in ins.global_sites) or (pos in own and ins.sites[s][1] == 'comp')
                     or tuple(s) in prev.get(pos, ())]
        if len(explained) == len(real) and any(tuple(s) in prev.get(pos, ()) or ins.sites[s][1] == 'comp' for s in real):
            return 'comprehension-variable-read-in-its-own-iterable'
    return None


def annotation_after_binding(ins, pos, sites):
    """The read is (part of) the annotation of `t: ann = value` and every run-time binding site lies inside that
    same statement (its target or a walrus in its value): CPython evaluates the annotation last."""
    if pos not in ins.ann_range or not sites:
        return False
    lo, hi = ins.ann_range[pos]
    return all(isinstance(s, tuple) and lo <= s < hi for s in sites)


def classify_known(sig):
    for fid, pred in KNOWN_SIGS.items():
        if pred(sig):
            return fid
    return None


KNOWN_SIGS = {
    'C01-global-at-module-level': lambda sig: sig == 'global-binding-invisible-at-module-level',
    'C01-annotation-after-binding': lambda sig: sig == 'annotation-evaluated-after-binding',
    'C01-comprehension-own-iterable': lambda sig: sig == 'comprehension-variable-read-in-its-own-iterable',
}
_listed = {e['id'] for e in core.load_known(PROPERTY) if e.get('status') == 'finding'}
KNOWN_SIGS = {k: v for k, v in KNOWN_SIGS.items() if k in _listed}
KNOWN = {fid: (lambda v, p=pred: p(v['signature'])) for fid, pred in KNOWN_SIGS.items()}


def w_programs(job):
    from vlib.gen.programs import programs
    idx, seed, n, cap = job
    sh = Shard()

    def prop(prog):
        probs, info = check_program(prog, cap)
        if info['skipped']:
            sh.count('discard:' + info['skipped'].split(':')[0])
            sh.case(prog['src'], False)
            return
        sh.case(prog['src'], info['nontrivial'] and info['checked_reads'] > 0,
                {'src': prog['src'], 'package': prog['package'], 'executions': info['runs'], 'checked_reads': info['checked_reads']})
        sh.count('programs')
        sh.count('executions', info['runs'])
        sh.count('checked_reads', info['checked_reads'])
        sh.count('programs_exhaustive' if info['exhaustive'] else 'programs_capped')
        for f in prog['features']:
            sh.count('feat:' + f)
        for sig, detail in probs:
            fid = classify_known(sig)
            if fid:
                sh.known_hit(fid, {'src': prog['src'], 'package': prog['package'], 'detail': detail})
                continue
            if sig not in sh.excluded:
                raise Found(sig, {'src': prog['src'], 'package': prog['package']}, detail)
    def minimise(f):
        pkg = f.case.get('package', False)

        def still(src):
            compile(src, '<min>', 'exec')
            probs, _ = check_program({'src': src, 'package': pkg}, min(cap, 200))
            return any(sig == f.signature for sig, _ in probs)
        small = core.minimise_lines(f.case['src'], still)
        probs, _ = check_program({'src': small, 'package': pkg}, cap)
        det = [dd for sig, dd in probs if sig == f.signature]
        return Found(f.signature, {'src': small, 'package': pkg}, det[0] if det else f.detail)
    core.hyp_search(sh, prop, programs('c01'), seed, n, shrink=False, max_rounds=8, minimise=minimise, budget_s=60)
    return sh.result()


def run(run):
    dynref.selftest()
    n = run.pick(300, 4000)
    cap = run.pick(200, 3000)
    run.pmap(w_programs, [(i, core.derive_seed(run.seed, 'c01', i), n, cap) for i in range(16)])
    progs = run.counters.get('programs', 0)
    disc = sum(v for k, v in run.counters.items() if k.startswith('discard:'))
    run.extra['discard_rate'] = round(disc / max(1, progs + disc), 4)
    if progs and disc / (progs + disc) > 0.2:
        raise core.HarnessError('generator discard rate %.2f > 0.2' % (disc / (progs + disc)))


def replay(case):
    probs, info = check_program({'src': case['src'], 'package': case.get('package', False)}, 3000)
    seen = set()
    out = []
    for sig, detail in probs:
        if sig not in seen:
            seen.add(sig)
            out.append({'signature': sig, 'case': {'src': case['src'], 'package': case.get('package', False)}, 'detail': detail})
    return out
