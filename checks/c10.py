"""C10 - unused-name diagnostics follow the exemption rules exactly (syntactic reference)."""
import ast
import collections
import os
import random

from vlib import core, corpus, suppview
from vlib.core import Shard, Found
from vlib.ref import unused_ref

PROPERTY = 'C10'
LEVEL = 'exploration'
RULE = ('Hypothesis modules placing bindings of every kind (assignment incl. tuple/starred, parameter of function/method/lambda of '
        'every parameter kind, for/with/except target, comprehension variable, walrus, def, class, import, from-import, dotted '
        'import, star import, __future__ import, underscore names) in every scope kind (module, class, function, method, nested '
        'function, lambda, class inside function), most of them never read; plus real files restricted to identifiers without any '
        'Load occurrence. Oracle: purely syntactic reference (vlib/ref/unused_ref.py); lint W01/W02 entries for never-read '
        'identifiers must equal the expected multiset of (code, name, line, col). Non-trivial module: >= 3 binding kinds unread in '
        '>= 2 scope kinds; distinct by source text.')
ASSUMPTIONS = ['"never read" = no ast.Name in Load context with that identifier anywhere in the file',
               'files/modules that read the name `locals` are skipped (outside the statement); names touched by nonlocal, del, augmented '
               'assignment or bound as parameter of a lambda written directly in a class body are left unclassified (the statement is silent)']


def compare(src, filename):
    """-> (problems, info)"""
    tree = ast.parse(src)
    want, info = unused_ref.expected_reports(src, tree)
    if info['reads_locals']:
        return None, info
    proj = suppview.project()
    try:
        lv = suppview.lint_view(proj, src, filename)
    except Exception as e:
        hit = core.supp_crash(e)
        if hit is None:
            raise
        return [hit], info      # no diagnostics at all for a valid module
    if lv['E01']:
        return [('lint-E01-on-valid-module', repr(lv['E01']))], info
    read = info['read']
    unc = info['uncertain']
    got = []
    for code, msg, l, c in lv['raw']:
        if code in ('W01', 'W02'):
            name = msg.rpartition(': ')[2]
            if name in read or name in unc:
                continue
            got.append((code, name, l, c))
            if not msg.startswith('Unused name: ' if code == 'W01' else 'Unused import: '):
                return [('message-text', repr(msg))], info
    cw, cg = collections.Counter(want), collections.Counter(got)
    problems = []
    kinds = {(b.pos): b for b in info['considered']}
    for item, n in (cg - cw).items():
        code, name, l, c = item
        b = kinds.get((l, c))
        if cg[item] > 1 and cw[item] >= 1:
            problems.append(('reported-more-than-once', '%r reported %d times' % (item, cg[item])))
        elif b is None:
            problems.append(('report-at-no-binding-position:%s' % code, '%r: the reference knows no never-read binding there' % (item,)))
        elif any(w[1:] == item[1:] for w in want):
            problems.append(('wrong-code', 'lint %r, expected %s' % (item, [w for w in want if w[1:] == item[1:]])))
        else:
            problems.append(('over-reported:%s:%s-in-%s%s' % (code, b.kind, b.scope, ':underscore' if name.startswith('_') else ''),
                             'lint reports %r; by the rules a %s in %s scope%s is exempt' % (item, b.kind, b.scope, ' (method parameter)' if b.is_method_param else '')))
    for item, n in (cw - cg).items():
        code, name, l, c = item
        b = kinds.get((l, c))
        problems.append(('missing-report:%s:%s-in-%s' % (code, b.kind if b else '?', b.scope if b else '?'),
                         'expected %r (never-read %s in %s scope) but lint does not report it; lint has %s' % (
                             item, b.kind if b else '?', b.scope if b else '?', [g for g in got if g[1] == name])))
    return problems, info


# ---------------------------------------------------------------------------
# generator

def module_strategy():
    from hypothesis import strategies as st
    UNREAD = ['u%d' % i for i in range(12)] + ['\u00e9t\u00e9', '\u0438\u043c\u044f', 'na\u00efve']      # non-ASCII identifiers: columns are UTF-8 byte offsets, as in ast
    READ = ['r%d' % i for i in range(4)]
    UNDER = ['_', '_u', '__v']

    @st.composite
    def module(draw):
        used_unread = set()
        counter = [0]

        def fresh():
            counter[0] += 1
            return 'n%d' % counter[0]

        def name():
            k = draw(st.integers(0, 9))
            if k < 6:
                return fresh() if draw(st.booleans()) else draw(st.sampled_from(UNREAD))
            if k < 8:
                return draw(st.sampled_from(READ))
            return draw(st.sampled_from(UNDER))

        def binding(ind, scope, depth):
            kinds = ['assign', 'assign', 'tuple', 'starred', 'for', 'with', 'walrus', 'comp', 'import', 'from', 'dotted', 'def', 'class', 'lambda', 'ann', 'chain']
            if scope in ('function', 'method', 'nested'):
                kinds += ['except', 'except', 'for', 'with', 'def', 'import']
            else:
                kinds += ['except']
            k = draw(st.sampled_from(kinds))
            n = name()
            if k == 'assign':
                return [ind + '%s = 1' % n]
            if k == 'ann':
                # (x): T = v is an ordinary binding too (the parser merely clears AnnAssign.simple)
                return [ind + draw(st.sampled_from(['%s: int = 1', '%s: int = 1', '(%s): int = 1', '((%s)): "T" = None'])) % n]
            if k == 'chain':
                return [ind + '%s = %s = 2' % (n, name())]
            if k == 'tuple':
                return [ind + '%s, (%s, %s) = 1, (2, 3)' % (n, name(), name())]
            if k == 'starred':
                return [ind + '%s, *%s = [1, 2]' % (n, name())]
            if k in ('for', 'with', 'comp') and draw(st.integers(0, 3)) == 0:
                # a target that mixes attribute / subscript elements (which bind nothing) with plain names, in any order and depth
                r = draw(st.sampled_from(READ))
                tgt = draw(st.sampled_from(['%s.k, %s' % (r, n), '%s[0], %s' % (r, n), '%s, %s.k' % (n, r), '(%s.a, (%s[1], %s)), %s' % (r, r, n, name()),
                                            '%s, *%s.rest' % (n, r), '[%s.a, %s]' % (r, n)]))
                if k == 'for':
                    return [ind + 'for %s in []:' % tgt, ind + '    pass']
                if k == 'with':
                    return [ind + 'with open("f") as (%s):' % tgt, ind + '    pass']
                return [ind + '[0 for %s in []]' % tgt]
            if k == 'for':
                return [ind + 'for %s in []:' % (n if draw(st.booleans()) else '%s, %s' % (n, name())), ind + '    pass']
            if k == 'with':
                return [ind + 'with open("f") as %s:' % (n if draw(st.booleans()) else '(%s, %s)' % (n, name())), ind + '    pass']
            if k == 'except':
                return [ind + 'try:', ind + '    pass', ind + 'except Exception as %s:' % n, ind + '    pass']
            if k == 'walrus':
                if scope == 'class':
                    return [ind + '%s = 3' % n]
                return [ind + 'if (%s := 1):' % n, ind + '    pass']
            if k == 'comp':
                form = draw(st.sampled_from(['[0 for %s in []]', '{0 for %s in []}', '{0: 0 for %s in []}', 'list(0 for %s in [])', '[0 for %s, _q in []]']))
                return [ind + form % n]
            if k == 'import':
                m = draw(st.sampled_from(['os', 'json', 'sys', 'fx_mod']))
                if draw(st.booleans()):
                    return [ind + 'import %s as %s' % (m, n)]
                return [ind + 'import %s' % m]
            if k == 'from' and draw(st.integers(0, 2)) == 0:
                # parenthesised / continued multi-line import: the alias positions live on continuation lines
                m, xs = draw(st.sampled_from([('os', ['sep', 'path', 'getcwd']), ('collections', ['deque', 'defaultdict', 'OrderedDict']),
                                             ('fx_mod', ['fa', 'fb', 'fx_func'])]))
                xs = draw(st.permutations(xs))[:draw(st.integers(2, 3))]
                pad = ' ' * draw(st.integers(0, 6))
                parts = []
                for x in xs:
                    parts.append('%s as %s' % (x, name()) if draw(st.booleans()) else x)
                if draw(st.booleans()):
                    return [ind + 'from %s import (' % m] + [ind + pad + p_ + ',' for p_ in parts] + [ind + ')']
                return [ind + 'from %s import \\' % m] + [ind + pad + ' ' + p_ + (', \\' if i < len(parts) - 1 else '') for i, p_ in enumerate(parts)]
            if k == 'from':
                m, x = draw(st.sampled_from([('os', 'sep'), ('os', 'path'), ('fx_mod', 'fa'), ('json', 'loads')]))
                if draw(st.booleans()):
                    return [ind + 'from %s import %s as %s' % (m, x, n)]
                return [ind + 'from %s import %s' % (m, x)]
            if k == 'dotted':
                return [ind + 'import %s' % draw(st.sampled_from(['os.path', 'xml.dom', 'fx_pkg.sub', 'email.mime.text']))]
            if k == 'lambda':
                if scope == 'class':
                    return [ind + '%s = 4' % n]
                ps = lambda_params()
                return [ind + '%s = lambda %s: 0' % (n, ps)]
            if k == 'def' and depth < 3:
                return function(ind, 'nested' if scope in ('function', 'method', 'nested') else ('method' if scope == 'class' else 'function'), depth + 1, n)
            if k == 'class' and depth < 3:
                return klass(ind, depth + 1, n)
            return [ind + '%s = 5' % n]

        def lambda_params():
            ps = [name()]
            if draw(st.booleans()):
                ps.append('%s=1' % name())
            if draw(st.integers(0, 3)) == 0:
                ps.append('*%s' % name())
            if draw(st.integers(0, 3)) == 0:
                ps.append('**%s' % name())
            seen, out = set(), []
            for p in ps:
                base = p.lstrip('*').split('=')[0]
                if base not in seen:
                    seen.add(base)
                    out.append(p)
            return ', '.join(out)

        def params(method):
            ps = []
            seen = set()

            def add(fmt):
                n = name()
                if n in seen:
                    n = fresh()
                seen.add(n)
                ps.append(fmt % n)
            if method:
                first = draw(st.sampled_from(['self', 'cls', 'this']))
                ps.append(first)
                seen.add(first)
            if draw(st.integers(0, 3)) == 0:
                add('%s')
                ps.append('/')
            for _ in range(draw(st.integers(0, 2))):
                add('%s')
            if draw(st.booleans()):
                add('%s=' + draw(st.sampled_from(['None', 'None', 'lambda %s: 1' % name(), '{0 for %s in []}' % name()])))
            star = False
            if draw(st.integers(0, 2)) == 0:
                add('*%s')
                star = True
            if draw(st.integers(0, 2)) == 0:
                if not star:
                    ps.append('*')
                # defaults that bind names themselves: a lambda's parameters, a comprehension variable
                dflt = draw(st.sampled_from(['0', '0', 'lambda %s: 0' % name(), '[0 for %s in []]' % name(), 'lambda %s, %s=1: 0' % (name(), fresh())]))
                add('%s=' + dflt)
            if draw(st.integers(0, 2)) == 0:
                add('**%s')
            return ', '.join(ps)

        def body(ind, scope, depth):
            lines = []
            for _ in range(draw(st.integers(1, 4))):
                lines += binding(ind, scope, depth)
            if draw(st.integers(0, 2)) == 0:
                lines.append(ind + 'print(%s)' % draw(st.sampled_from(READ)))
            return lines

        def function(ind, scope, depth, n):
            deco = [ind + '@staticmethod'] if scope == 'method' and draw(st.integers(0, 3)) == 0 else []
            head = draw(st.sampled_from(['def', 'def', 'async def']))
            lines = deco + [ind + '%s %s(%s):' % (head, n, params(scope == 'method'))]
            if scope != 'method' and draw(st.integers(0, 4)) == 0:
                gname = 'gl%d' % draw(st.integers(0, 2))
                lines.append(ind + '    global %s' % gname)
                lines.append(ind + '    %s = 1' % gname)
            lines += body(ind + '    ', scope, depth)
            return lines

        def klass(ind, depth, n):
            lines = [ind + 'class %s:' % n]
            lines += body(ind + '    ', 'class', depth)
            return lines

        lines = []
        if draw(st.integers(0, 3)) == 0:
            lines.append('from __future__ import %s' % draw(st.sampled_from(['annotations', 'print_function', 'division, unicode_literals'])))
        if draw(st.integers(0, 3)) == 0:
            lines.append('from fx_star import *')
        lines += body('', 'module', 0)
        # make sure the main scope kinds occur
        lines += function('', 'function', 1, fresh())
        lines += klass('', 1, fresh())
        lines.append('print(%s)' % ', '.join(READ))
        # comments change nothing: plain ones and ones that look like type comments where the type-comment grammar has none
        # (after a return, a block header, an expression statement, on a line of their own)
        if draw(st.integers(0, 2)) == 0:
            out = []
            for l in lines:
                k = draw(st.integers(0, 11))
                if k == 0 and '\n' not in l and not l.rstrip().endswith(('(', '\\', ',')) and '#' not in l:
                    l = l + draw(st.sampled_from(['  # type: int', '  # type: ignore', '  # noqa', '  # type: (int) -> str', '  # type:']))
                elif k == 1:
                    out.append(l[:len(l) - len(l.lstrip())] + draw(st.sampled_from(['# type: str', '# a comment', '# type: List[int]'])))
                out.append(l)
            lines = out
        # line ends: \n, \r\n, a lone \r (classic Mac files, a stray carriage return) - all are line ends for the parser
        sep = draw(st.sampled_from(['\n', '\n', '\n', '\r\n', '\r']))
        text = '\n'.join(lines) + '\n'
        if sep != '\n':
            text = text.replace('\n', sep)
        elif draw(st.integers(0, 5)) == 0:
            head, nl, tail = text.partition('\n')
            text = head + '\r' + tail               # one stray carriage return
        return text
    return module()


def nontrivial_module(info):
    kinds = collections.defaultdict(set)
    for b in info['considered']:
        kinds[b.scope].add(b.kind)
    allk = set().union(*kinds.values()) if kinds else set()
    return len(allk) >= 3 and len(kinds) >= 2


def w_modules(job):
    idx, seed, n = job
    sh = Shard()
    fn = suppview.filename_for(False)

    def prop(src):
        try:
            compile(src, '<c10>', 'exec')
        except SyntaxError as e:
            sh.count('discard:syntax:' + str(e.msg)[:30])
            return
        probs, info = compare(src, fn)
        if probs is None:
            sh.count('discard:reads-locals')
            return
        sh.case(src, nontrivial_module(info), {'src': src, 'never_read_bindings': len(info['considered'])})
        sh.count('modules')
        for b in info['considered']:
            sh.count('binding:%s-in-%s' % (b.kind, b.scope))
        for sig, detail in probs:
            if sig not in sh.excluded:
                raise Found(sig, {'src': src, 'filename': fn}, detail)

    def minimise(f):
        def still(src):
            compile(src, '<m>', 'exec')
            probs, _ = compare(src, fn)
            return bool(probs) and any(s == f.signature for s, _ in probs)
        small = core.minimise_lines(f.case['src'], still)
        probs, _ = compare(small, fn)
        det = [d for s, d in (probs or []) if s == f.signature]
        return Found(f.signature, {'src': small, 'filename': fn}, det[0] if det else f.detail)
    core.hyp_search(sh, prop, module_strategy(), seed, n, shrink=False, max_rounds=6, minimise=minimise)
    return sh.result()


def w_files(job):
    files, seed = job
    sh = Shard()
    for path in files:
        src = corpus.read(path)
        if src is None:
            continue
        tree, why = corpus.parse_in_domain(src, path)
        if tree is None:
            sh.count('file-skipped:' + why.split(':')[0])
            continue
        try:
            probs, info = compare(src, path)
        except RecursionError:
            sh.count('file-skipped:recursion')
            continue
        except Exception as e:
            sh.count('file-skipped:lint-crash-%s' % type(e).__name__)      # C08's subject
            continue
        if probs is None:
            sh.count('file-skipped:reads-locals')
            continue
        sh.count('files')
        sh.count('file-never-read-bindings', len(info['considered']))
        sh.case(path, len(info['considered']) >= 3, {'file': os.path.relpath(path, '/'), 'never_read_bindings': len(info['considered'])})
        first = {}
        for sig, detail in probs:
            first.setdefault(sig, detail)
        for sig, detail in first.items():
            def still(cand, sig=sig, path=path):
                p2, _ = compare(cand, path)
                return bool(p2) and any(s == sig for s, _ in p2)
            small = src
            try:
                if len(src) < 80000:
                    small = core.minimise_lines(src, still, max_steps=200)
                    p2, _ = compare(small, path)
                    detail = [d for s, d in p2 if s == sig][0]
            except Exception:
                pass
            sh.violation(sig, {'src': small, 'filename': path}, detail)
    return sh.result()


def run(run):
    run.pmap(w_modules, [(i, core.derive_seed(run.seed, 'c10', i), run.pick(60, 1500)) for i in range(16)])
    files = corpus.sample(core.derive_seed(run.seed, 'c10f'), run.pick(150, 1750), include_repo=True, max_bytes=run.pick(80000, None))
    run.pmap(w_files, [(s, i) for i, s in enumerate(corpus.shards(files, 16))])


def replay(case):
    fn = case.get('filename') or suppview.filename_for(False)
    probs, info = compare(case['src'], fn)
    seen, out = set(), []
    for sig, detail in (probs or []):
        if sig not in seen:
            seen.add(sig)
            out.append({'signature': sig, 'case': case, 'detail': detail})
    return out


KNOWN = {}
