"""C04 - answers do not depend on which positions were queried before.

(i)  per analysed module (generated programs biased to loops / try-in-loop, and real files): every read is
     answered first on a fresh analysis (baseline); then the reads are queried on ONE analysis object in many
     orders (all permutations for <= 5 reads; forward, reverse, inside-out and seeded random orders otherwise)
     and every answer must equal the baseline.  lint() and location() must agree with the per-read baselines.
(ii) project-level histories (Hypothesis operation sequences over one Project with three modules that import
     each other): every reply equals the reply of a new Project.
"""
import ast
import itertools
import os
import random
import shutil
import sys
import tempfile

from vlib import core, suppview, corpus
from vlib.core import Shard, Found

PROPERTY = 'C04'
LEVEL = 'exploration'
RULE = ('(i) Hypothesis programs (profiles c01/c02, loop-heavy) and a seeded sample of real files; baseline = answer '
        '(alternatives (kind, declared_at), has_undefined, visible-name set) when the read is the first query on a fresh '
        'analysis; then all permutations (<= 5 reads) or forward/reverse/inside-out + seeded random orders on one analysis '
        'object, lint vs derived diagnostics, location vs baseline definitions. (ii) generated operation sequences '
        '(lint/assist/location, repeated, over 3 modules importing each other) on one Project vs a new Project per '
        'request. Non-trivial: module with a loop containing >= 2 reads, or history of length >= 3 using two different '
        'entry points; distinct by (source, orders) / history.')
ASSUMPTIONS = ['baseline answers come from supp itself on a fresh analysis: this check decides order-independence, not correctness (C01-C03 do that)',
               'for real files fresh-first baselines are computed for a sample of reads (all reads are still compared across orders)']


def sorted_reads(tree):
    return sorted(suppview.load_names(tree), key=lambda n: (n.lineno, n.col_offset))


def answer(node, visible=True):
    a = suppview.summarize(node)
    if isinstance(a, dict):
        out = (tuple(map(tuple, a['alts'])), a['undefined'])
        if visible:
            out += (tuple(suppview.visible_names(node)),)
        return out
    return a


def orders_for(n, rnd, k_random):
    idx = list(range(n))
    if n <= 5:
        return [list(p) for p in itertools.permutations(idx)], True
    out = [idx[:], idx[::-1]]
    mid = n // 2
    inside_out = []
    for d in range(n):
        for j in (mid - d, mid + d):
            if 0 <= j < n and j not in inside_out:
                inside_out.append(j)
    out.append(inside_out)
    for _ in range(k_random):
        p = idx[:]
        rnd.shuffle(p)
        out.append(p)
    # every read first once (cheap and the most revealing vantage points) for modest sizes
    if n <= 40:
        for i in idx:
            out.append([i] + [j for j in idx if j != i])
    return out, False


def loop_read_count(tree):
    best = 0
    for node in ast.walk(tree):
        if isinstance(node, (ast.For, ast.While)):
            c = sum(1 for n in ast.walk(node) if isinstance(n, ast.Name) and isinstance(n.ctx, ast.Load))
            best = max(best, c)
    return best


@core.crash_guard({'reads': 0, 'orders': 0, 'exhaustive_orders': False, 'queries': 0})
def check_module(src, filename, rnd, k_random=6, baseline_sample=None, visible=True):
    """Returns (problems, info)."""
    from supp import assistant
    proj = suppview.project()
    info = {'reads': 0, 'orders': 0, 'exhaustive_orders': False, 'queries': 0}
    s0, scope0 = suppview.analyse(src, filename, proj)
    positions = [(n.lineno, n.col_offset) for n in sorted_reads(s0.tree)]
    names = {(n.lineno, n.col_offset): n.id for n in sorted_reads(s0.tree)}
    info['reads'] = len(positions)
    if not positions:
        return [], info
    # baselines: fresh-first
    base_positions = positions if baseline_sample is None else baseline_sample(positions)
    baseline = {}
    for pos in base_positions:
        s, scope = suppview.analyse(src, filename, proj)
        node = [n for n in suppview.load_names(s.tree) if (n.lineno, n.col_offset) == pos][0]
        baseline[pos] = answer(node, visible)
    problems = []
    orders, exhaustive = orders_for(len(positions), rnd, k_random)
    info['orders'] = len(orders)
    info['exhaustive_orders'] = exhaustive
    first_seen = {}
    for order in orders:
        s, scope = suppview.analyse(src, filename, proj)
        nodes = {(n.lineno, n.col_offset): n for n in suppview.load_names(s.tree)}
        for step, i in enumerate(order):
            pos = positions[i]
            a = answer(nodes[pos], visible)
            info['queries'] += 1
            ref = baseline.get(pos, first_seen.get(pos))
            if ref is None and pos not in baseline:
                first_seen[pos] = a
                continue
            if a != ref:
                problems.append(('order-dependent-answer',
                                 'read %s at %s answers %r when queried %d-th in order starting %s, but %r when queried first on a fresh analysis' % (
                                     names[pos], pos, _short(a), step + 1, [positions[j] for j in order[:3]], _short(ref))))
                break
            # repeated identical query
            if step == 0:
                a2 = answer(nodes[pos], visible)
                if a2 != a:
                    problems.append(('repeat-changes-answer', 'read %s at %s: second identical query differs' % (names[pos], pos)))
        if problems:
            break
    # lint against the derived diagnostics
    lv = suppview.lint_view(suppview.project(), src, filename)
    if not lv['E01'] and baseline_sample is None:
        want_e02 = {(p[0], p[1], names[p]) for p in positions if baseline[p] is None}
        want_e42 = {(p[0], p[1], names[p]) for p in positions if baseline[p] == 'E42'}
        if lv['E02'] != want_e02:
            problems.append(('lint-E02-differs-from-fresh-answers', 'lint E02 %s, per-read fresh answers say %s' % (sorted(lv['E02'] ^ want_e02), 'symmetric difference shown')))
        if lv['E42'] != want_e42:
            problems.append(('lint-E42-differs-from-fresh-answers', 'lint %s vs %s' % (sorted(lv['E42']), sorted(want_e42))))
        listed = set()
        for p in positions:
            if isinstance(baseline[p], tuple):
                for kind, decl in baseline[p][0]:
                    listed.add(tuple(decl))
        for code in ('W01', 'W02'):
            for (l, c, n) in lv[code]:
                if (l, c) in listed:
                    problems.append(('lint-unused-but-listed-by-a-fresh-read', '%s for %s at %s although a read lists that binding when asked first' % (code, n, (l, c))))
        # location vs baseline definitions
        for p in positions[:60]:
            b = baseline[p]
            if not isinstance(b, tuple):
                continue
            want = {tuple(decl) for kind, decl in b[0] if tuple(decl) != (0, 0) and kind not in ('RuntimeName',)}
            try:
                res = assistant.location(suppview.project(), src, (p[0], p[1] + len(names[p])), filename)
            except Exception as e:
                problems.append(('location-raises:%s' % type(e).__name__, '%s at %s: %r' % (names[p], p, e)))
                continue
            got = set()
            for r in res:
                for e in (r if isinstance(r, list) else [r]):
                    if e.get('file') == filename:
                        got.add(tuple(e['loc']))
            if got != want:
                problems.append(('location-differs-from-names_at', 'read %s at %s: location lists %s, names_at asked first lists %s' % (names[p], p, sorted(got), sorted(want))))
    return problems, info


def attr_answer(proj, node):
    """what the analysis gives for the receiver of an attribute access: sorted attribute names, or None"""
    from supp.evaluator import EvalCtx
    ctx = EvalCtx(proj)
    v = ctx.evaluate(node.value)
    if not v:
        return None
    return sorted(v.attr_list(ctx))


def check_attribute_order(src, filename, rnd, n_nodes, n_fresh):
    """Attribute evaluation (what completion after `expr.` rests on) must not depend on which other expressions of the module
    were evaluated before: a sample of attribute accesses is evaluated front to back on one analysis, back to front on
    another, and (a sub-sample) each as the first query of a fresh analysis.  -> (problems, stats)"""
    proj = suppview.project()
    s0, _ = suppview.analyse(src, filename, proj)
    key = lambda n: (n.lineno, n.col_offset, n.end_col_offset)
    attrs = [n for n in ast.walk(s0.tree) if isinstance(n, ast.Attribute) and isinstance(n.ctx, ast.Load) and n.end_lineno == n.lineno]
    # receivers that go through attributes of self / instances are where the assignment tables come in
    attrs.sort(key=key)
    rnd.shuffle(attrs)
    deep = [n for n in attrs if isinstance(n.value, (ast.Attribute, ast.Call))]
    sample = (deep[:n_nodes * 2 // 3] + [n for n in attrs if n not in deep[:n_nodes * 2 // 3]])[:n_nodes]
    keys = sorted(key(n) for n in sample)
    stats = {'attribute_nodes': len(keys), 'attribute_queries': 0}
    if len(keys) < 2:
        return [], stats
    runs = {}
    for label, order in (('front-to-back', keys), ('back-to-front', keys[::-1])):
        p = suppview.project()
        s, _ = suppview.analyse(src, filename, p)
        nodes = {key(n): n for n in ast.walk(s.tree) if isinstance(n, ast.Attribute)}
        out = {}
        for k in order:
            out[k] = attr_answer(p, nodes[k])
            stats['attribute_queries'] += 1
        runs[label] = out
    fresh = {}
    for k in keys[::max(1, len(keys) // max(1, n_fresh))][:n_fresh]:
        p = suppview.project()
        s, _ = suppview.analyse(src, filename, p)
        node = [n for n in ast.walk(s.tree) if isinstance(n, ast.Attribute) and key(n) == k][0]
        fresh[k] = attr_answer(p, node)
        stats['attribute_queries'] += 1
    problems = []
    for k in keys:
        a, b = runs['front-to-back'][k], runs['back-to-front'][k]
        if a != b:
            problems.append(('attribute-answer-order-dependent' + instance_table_suffix(src, filename, k, a, b), 'receiver of the attribute access at %s: %s attributes when the module is asked front to back, %s back to front (difference %s)' % (
                k[:2], None if a is None else len(a), None if b is None else len(b), sorted(set(a or ()) ^ set(b or ()))[:6])))
            break
        if k in fresh and fresh[k] != a:
            problems.append(('attribute-answer-differs-from-first-query' + instance_table_suffix(src, filename, k, fresh[k], a), 'receiver of the attribute access at %s: %s attributes as the first query of a fresh analysis, %s after the accesses before it (difference %s)' % (
                k[:2], None if fresh[k] is None else len(fresh[k]), None if a is None else len(a), sorted(set(a or ()) ^ set(fresh[k] or ()))[:6])))
            break
    return problems, stats


def instance_table_suffix(src, filename, key, a, b):
    """':instance-attribute-table' when the receiver is an instance of a source class and every differing name is an attribute
    its base classes assign through self (the listed finding about per-instance tables kept although cut by a guard)"""
    diff = set(a or ()) ^ set(b or ())
    try:
        tree = ast.parse(src)
        node = [n for n in ast.walk(tree) if isinstance(n, ast.Attribute) and (n.lineno, n.col_offset, n.end_col_offset) == tuple(key)][0]
        names = suppview.base_assigned_names(src, filename, node.value.end_lineno, node.value.end_col_offset)
    except Exception:
        names = None
    return ':instance-attribute-table' if names and diff and diff <= names else ''


def attribute_witness(src, filename, keys):
    out = {}
    for label, order in (('front-to-back', keys), ('back-to-front', keys[::-1])):
        p = suppview.project()
        s, _ = suppview.analyse(src, filename, p)
        nodes = {(n.lineno, n.col_offset, n.end_col_offset): n for n in ast.walk(s.tree) if isinstance(n, ast.Attribute)}
        out[label] = {k: attr_answer(p, nodes[k]) for k in order}
    for k in keys:
        if out['front-to-back'][k] != out['back-to-front'][k]:
            return [('attribute-answer-order-dependent' + instance_table_suffix(src, filename, k, out['front-to-back'][k], out['back-to-front'][k]),
                     'attribute access at %s: %s vs %s attributes' % (
                k[:2], len(out['front-to-back'][k] or ()), len(out['back-to-front'][k] or ())))]
    return []


def _short(a):
    if isinstance(a, tuple):
        return (a[0], a[1])
    return a


# ---------------------------------------------------------------------------
# (i) generated programs

def w_programs(job):
    from hypothesis import strategies as st
    from vlib.gen.programs import programs
    idx, seed, n = job
    sh = Shard()
    filename = suppview.filename_for(False)

    def prop(args):
        prog, oseed = args
        src = prog['src']
        try:
            tree = ast.parse(src)
        except SyntaxError:
            sh.count('discard:syntax')
            return
        rnd = random.Random(oseed)
        fn = suppview.filename_for(prog['package'])
        probs, info = check_module(src, fn, rnd)
        lr = loop_read_count(tree)
        sh.case((src, oseed), lr >= 2, {'src': src, 'reads': info['reads'], 'orders': info['orders'], 'exhaustive_orders': info['exhaustive_orders']})
        sh.count('programs')
        sh.count('orders', info['orders'])
        sh.count('queries', info['queries'])
        if info['exhaustive_orders']:
            sh.count('modules_all_permutations')
        if lr >= 2:
            sh.count('programs_with_loop_reads')
        for sig, detail in probs:
            if sig not in sh.excluded:
                raise Found(sig, {'kind': 'program', 'src': src, 'package': prog['package'], 'oseed': oseed}, detail)

    def minimise(f):
        def still(src):
            compile(src, '<m>', 'exec')
            probs, _ = check_module(src, suppview.filename_for(f.case['package']), random.Random(f.case['oseed']))
            return any(s == f.signature for s, _ in probs)
        small = core.minimise_lines(f.case['src'], still)
        probs, _ = check_module(small, suppview.filename_for(f.case['package']), random.Random(f.case['oseed']))
        det = [d for s, d in probs if s == f.signature]
        return Found(f.signature, dict(f.case, src=small), det[0] if det else f.detail)
    strat = st.tuples(st.one_of(programs('c01'), programs('c02')), st.integers(0, 2 ** 30))
    core.hyp_search(sh, prop, strat, seed, n, shrink=False, max_rounds=4, minimise=minimise, budget_s=60)
    return sh.result()


def w_files(job):
    files, seed, attr_nodes, attr_fresh, attr_max_bytes = job
    sh = Shard()
    rnd = random.Random(seed)
    for path in files:
        src = corpus.read(path)
        if src is None:
            continue
        tree, why = corpus.parse_in_domain(src, path)
        if tree is None:
            sh.count('file-skipped:' + why.split(':')[0])
            continue

        def pick(positions, rnd=rnd, tree=tree):
            loops = set()
            for node in ast.walk(tree):
                if isinstance(node, (ast.For, ast.While)):
                    for n in ast.walk(node):
                        if isinstance(n, ast.Name) and isinstance(n.ctx, ast.Load):
                            loops.add((n.lineno, n.col_offset))
            inl = [p for p in positions if p in loops]
            rnd.shuffle(inl)
            rest = [p for p in positions if p not in loops]
            rnd.shuffle(rest)
            return inl[:20] + rest[:8]
        try:
            probs, info = check_module(src, path, rnd, k_random=2, baseline_sample=pick, visible=False)
        except RecursionError:
            sh.count('file-skipped:recursion')
            continue
        except Exception as e:
            sh.count('file-crash:%s' % type(e).__name__)     # totality is C08's subject
            continue
        try:
            if len(src) <= attr_max_bytes:
                aprobs, astats = check_attribute_order(src, path, random.Random(core.derive_seed(seed, path)), attr_nodes, attr_fresh)
                probs = list(probs) + aprobs
                sh.count('attribute_queries', astats['attribute_queries'])
                sh.count('files_with_attribute_order_check', 1 if astats['attribute_nodes'] >= 2 else 0)
        except RecursionError:
            sh.count('file-skipped:recursion')
        except Exception as e:
            hit = core.supp_crash(e)
            if hit is None:
                raise
            sh.count('file-crash:%s' % type(e).__name__)     # totality is C08's subject
        sh.case(path, loop_read_count(tree) >= 2, {'file': os.path.relpath(path, '/'), 'reads': info['reads'], 'orders': info['orders']})
        sh.count('files')
        sh.count('file_queries', info['queries'])
        for sig, detail in probs:
            sh.violation('file:' + sig, {'kind': 'file', 'path': path, 'seed': seed, 'attr': [attr_nodes, attr_fresh]}, detail)
            break
    return sh.result()


# ---------------------------------------------------------------------------
# (ii) project-level histories

M2 = '''class Base(object):
    battr = 1

    def bmeth(self):
        self.binst = 2
        self.shared = 'text'
        return self


def mk():
    return Base()


def first(tree):
    return descend(tree)


def descend(tree):
    if tree:
        found = first(tree)
    else:
        found = Base()
    return found


val = mk()
counter = 0
for step in [1, 2]:
    if step:
        prev = counter
    counter = step
'''
M1 = '''from m2 import *
import m2 as second


class Mid(Base):
    mattr = val

    def mmeth(self):
        self.minst = Base()
        self.shared = Base()
        return self.minst

    def mother(self):
        self.shared = make_mid
        self.mattr = 'set on the instance'
        return self


def make_mid():
    return Mid()


class Other(object):
    oattr = 1


class Holder(object):
    def fill(self, c, d, e):
        x = Mid()
        y = Other()
        while c:
            if d:
                x = y
            if e:
                y = x
                self.inner = y
        self.final = x


item = make_mid()
while item:
    last = item
    item = second.mk()
'''
M0 = '''import m1
from m1 import Mid as M, make_mid
x = M()
y = x.mmeth()
for i in [1, 2]:
    if i:
        z = y
    y = x
w = make_mid().mmeth().bmeth()
print(x.mattr, y.binst, m1.val.battr, z, w.binst, m1.item.minst)
base = m1.second.Base()
print(base.shared.upper, x.shared.battr, base.bmeth().shared, x.mother().shared, m1.val.shared.lower)
print(M.mattr, m1.Mid.mattr, m1.Mid.mmeth, m1.second.Base.battr, M().mattr, x.mattr)
print(m1.second.first(None).battr, m1.second.descend(None).binst, m1.second.first(x).bmeth)
h = m1.Holder()
print(h.final.mattr, h.inner.oattr, h.inner.mattr, h.final.oattr)
p = m1.Mid()
q = m1.second.Base()
while i:
    if z:
        p = q
    if w:
        q = p
    print(q.battr, p.mattr)
print(p.mattr, q.binst, p.battr, q.bmeth)
'''
PK_INIT = '''from .b import bval
from . import b as bmod
pkg_attr = bmod.bval
'''
PK_B = '''bval = 'text'


def bfun():
    return bval
'''
PK_A = '''from . import b
from .b import *
from .sub import c as cmod
from .. import m2 as above
res = b.bfun()
print(bval.upper, res.lower, cmod.cval.real, above, cmod.up.lower)
'''
PK_SUB_C = '''from .. import b
from ..b import bval as up
from ... import m2 as toofar
cval = 1
print(b.bfun, up.upper, toofar, cval)
'''
# a top-level script: its relative imports start in a directory that is not a package and resolve to nothing,
# whatever was normalised for the package modules before
TOOL = '''from . import m2 as sibling
from . import b as sib_b
from .m2 import *
from .b import bfun
import pk.a
print(sibling, sib_b.bval.upper, val, bfun, pk.a.res.upper, Base, pk.pkg_attr.lower)
'''
MODS = {'m0': M0, 'm1': M1, 'm2': M2, 'pk/__init__': PK_INIT, 'pk/b': PK_B, 'pk/a': PK_A, 'pk/sub/__init__': 'subattr = 1\n',
        'pk/sub/c': PK_SUB_C, 'tool': TOOL}


def write_mods(root):
    for name, src in MODS.items():
        fn = os.path.join(root, name + '.py')
        os.makedirs(os.path.dirname(fn), exist_ok=True)
        with open(fn, 'w') as f:
            f.write(src)


def history_positions():
    out = {}
    for name, src in MODS.items():
        tree = ast.parse(src)
        pos = []
        for n in ast.walk(tree):
            if isinstance(n, ast.Name) and isinstance(n.ctx, ast.Load):
                pos.append((n.lineno, n.col_offset + len(n.id)))
            elif isinstance(n, ast.Attribute):
                pos.append((n.end_lineno, n.end_col_offset))
                pos.append((n.end_lineno, n.end_col_offset - len(n.attr)))
            elif isinstance(n, ast.alias) and getattr(n, 'end_col_offset', None) is not None:
                pos.append((n.end_lineno, n.end_col_offset))            # end of the imported (or alias) name
                pos.append((n.lineno, n.col_offset))                    # `from x import |`
            elif isinstance(n, ast.ImportFrom):
                pos.append((n.lineno, n.col_offset + len('from ') + n.level + len(n.module or '')))
        out[name] = sorted(set(pos))
    return out


def run_op(project, root, op):
    from supp import assistant, linter
    kind, mod, pi = op
    src = MODS[mod]
    fn = os.path.join(root, mod + '.py')
    positions = HPOS[mod]
    pos = positions[pi % len(positions)]
    try:
        if kind == 'lint':
            return ('ok', [tuple(r[:4]) for r in linter.lint(project, src, fn)])
        if kind == 'assist':
            r = assistant.assist(project, src, pos, fn)
            return ('ok', (r[0], list(r[1])))
        res = assistant.location(project, src, pos, fn)
        return ('ok', _norm_loc(res))
    except Exception as e:
        return ('exc', type(e).__name__)


def _norm_loc(res):
    out = []
    for r in res:
        if isinstance(r, list):
            out.append(sorted((tuple(e['loc']), e['file']) for e in r))     # order of alternatives is C17's subject
        else:
            out.append((tuple(r['loc']), r['file']))
    return out


HPOS = history_positions()
# positions off the import lines (completion there enumerates sys.path, which differs between processes: C15 compares
# a server child with the harness process and uses only these)
HPOS_CODE = {m: [p for p in ps if not MODS[m].splitlines()[p[0] - 1].startswith(('import ', 'from '))] for m, ps in HPOS.items()}


def w_histories(job):
    from hypothesis import strategies as st
    from supp.project import Project
    idx, seed, n = job
    sh = Shard()
    root = tempfile.mkdtemp(prefix='c04h_')
    try:
        write_mods(root)
        fresh_cache = {}

        def fresh(op):
            key = (op[0], op[1], op[2] % len(HPOS[op[1]]))
            if key not in fresh_cache:
                fresh_cache[key] = run_op(Project([root]), root, op)
            return fresh_cache[key]

        def prop(ops):
            # a history element is one request or a burst of requests at several positions of ONE line
            ops = [o for el in ops for o in (el if isinstance(el, list) else [el])]
            project = Project([root])
            kinds = set()
            for step, op in enumerate(ops):
                kinds.add(op[0])
                with project.check_changes():
                    got = run_op(project, root, op)
                want = fresh(op)
                if got != want:
                    pos = HPOS[op[1]][op[2] % len(HPOS[op[1]])]
                    raise Found('history-dependent-reply:%s' % op[0], {'kind': 'history', 'ops': [list(o) for o in ops[:step + 1]]},
                                'step %d %s %s %s replies %r on the long-lived project, %r on a new one' % (step + 1, op[0], op[1], pos, got, want))
            sh.case(ops, len(ops) >= 3 and len(kinds) >= 2, {'history': [list(o) for o in ops[:6]], 'length': len(ops)})
            sh.count('histories')
            sh.count('history_requests', len(ops))
        # two history alphabets: the attribute/loop modules only (8 shards), and every module incl. the package and the
        # top-level script with relative imports (4 shards)
        mods = ['m0', 'm1', 'm2'] if idx % 3 != 2 else sorted(m for m in MODS if HPOS[m])
        op = st.tuples(st.sampled_from(['lint', 'assist', 'location', 'location']), st.sampled_from(mods), st.integers(0, 200))
        # bursts: related expressions usually share a line (print(a.x, f().y, ...)); asking several of its positions in a
        # generated order right after each other is what exposes memos shared between neighbouring evaluations
        by_line = {}
        for m in mods:
            for i, p_ in enumerate(HPOS[m]):
                by_line.setdefault((m, p_[0]), []).append(i)
        rich = sorted(k for k, v in by_line.items() if len(v) >= 4)
        burst = st.sampled_from(rich).flatmap(lambda k: st.lists(
            st.tuples(st.sampled_from(['assist', 'location']), st.just(k[0]), st.sampled_from(by_line[k])), min_size=2, max_size=5).map(list))
        core.hyp_search(sh, prop, st.lists(st.one_of(op, op, burst), min_size=2, max_size=12), seed, n, shrink=True, max_rounds=3)
    finally:
        shutil.rmtree(root, ignore_errors=True)
    return sh.result()


def alias_module(nb, nx, via_call):
    """a class whose base is reached through a chain of nb aliases, and a chain of nx aliases ending in an attribute the class
    inherits: evaluation gets deep, and how deep depends on what was evaluated (and memoised) before"""
    lines = ['class Helper(object):', '    def __init__(self):', '        self.pong = 1', '', '    def ping(self):', '        return self.pong', '', '',
             'class Base(object):', '    shared = Helper()', '', '    def hello(self):', '        return 1', '', '', 'def ident(v):', '    return v', '', '', 'b0 = Base']
    lines += ['b%d = b%d' % (i, i - 1) for i in range(1, nb)]
    lines += ['', '', 'class K(b%d):' % (nb - 1), '    def own(self):', '        self.mine = 2', '        return self', '', '', 'x0 = K.shared']
    lines += [('x%d = ident(x%d)' if via_call and i % 7 == 3 else 'x%d = x%d') % (i, i - 1) for i in range(1, nx)]
    lines += ['k0 = K()'] + ['k%d = k%d' % (i, i - 1) for i in range(1, max(2, nx // 2))]
    return '\n'.join(lines) + '\n'


def _alias_ask(project, root, kind, expr):
    from supp import assistant
    src = 'import am\n' + expr + ('.' if kind == 'assist' else '.ping' if 'x' in expr else '.hello')
    pos = (2, len(src.split('\n')[1]))
    try:
        with project.check_changes():
            if kind == 'assist':
                r = assistant.assist(project, src, pos, os.path.join(root, 'buffer.py'))
                return ('ok', sorted(x for x in r[1] if not x.startswith('__')))
            return ('ok', _norm_loc(assistant.location(project, src, pos, os.path.join(root, 'buffer.py'))))
    except RecursionError:
        return ('recursion', None)
    except Exception as e:
        return ('exc', type(e).__name__)


def run_alias_case(args, sh=None):
    """-> (signature, case, detail) or None"""
    from supp.project import Project
    nb, nx, via_call, order = args
    root = tempfile.mkdtemp(prefix='c04a_')
    try:
        with open(os.path.join(root, 'am.py'), 'w') as f:
            f.write(alias_module(nb, nx, via_call))
        exprs = ['am.K', 'am.x%d' % (nx - 1), 'am.b%d' % (nb - 1), 'am.k%d' % (max(2, nx // 2) - 1), 'am.x%d' % (nx // 2), 'am.K()', 'am.x0']
        reqs = [(k, e) for e in exprs for k in ('assist', 'location')]
        seq = [reqs[i % len(reqs)] for i in order]
        project = Project([root])
        fresh = {}
        for step, (kind, expr) in enumerate(seq):
            got = _alias_ask(project, root, kind, expr)
            if (kind, expr) not in fresh:
                fresh[(kind, expr)] = _alias_ask(Project([root]), root, kind, expr)
            want = fresh[(kind, expr)]
            if got[0] == 'recursion' or want[0] == 'recursion':
                if sh is not None:
                    sh.count('alias-chain-recursion-limit')
                break
            if got != want:
                return ('history-dependent-reply:%s:alias-chains' % kind, {'kind': 'alias-chains', 'args': [nb, nx, via_call, list(order[:step + 1])]},
                        'step %d: %s %s replies %r on the long-lived project, %r on a new one (chains of %d and %d aliases)' % (
                            step + 1, kind, expr, _short(got), _short(want), nb, nx))
        if sh is not None:
            sh.case((nb, nx, via_call, tuple(order)), len(seq) >= 3, {'alias_chains': [nb, nx], 'via_call': via_call, 'requests': [list(r) for r in seq[:6]]})
            sh.count('alias-chain-histories')
    finally:
        shutil.rmtree(root, ignore_errors=True)
    return None


def w_alias_chains(job):
    """deep alias chains in a project module; the same completion / definition requests in every generated order on one
    long-lived project must equal the answers of a new project"""
    from hypothesis import strategies as st
    idx, seed, n = job
    sh = Shard()

    def prop(args):
        bad = run_alias_case(args, sh)
        if bad:
            raise Found(*bad)
    strat = st.tuples(st.integers(1, 16), st.integers(2, 45), st.booleans(), st.lists(st.integers(0, 13), min_size=2, max_size=8))
    core.hyp_search(sh, prop, strat, seed, n, shrink=True, max_rounds=3)
    return sh.result()


# ---------------------------------------------------------------------------
# two shapes reported by an independent reader of the code (wave 5) whose answers depend on the request history on the unchanged
# tree; both are listed findings with a classifier of their own, everything else these modules show is a violation

def receiver_alias_module(n_alias, attrs_on):
    """an instance, aliases of it obtained from a method returning self, attributes assigned through some of the aliases"""
    lines = ['class B(object):', '    def __init__(self):', '        self.a = 1', '', '    def set(self):', '        return self', '', '', 'b = B()']
    prev = 'b'
    for i in range(n_alias):
        lines.append('c%d = %s.set()' % (i, prev))
        prev = 'c%d' % i
    for k, i in enumerate(attrs_on):
        lines.append('%s.extra%d = %d' % ('b' if i < 0 else 'c%d' % i, k, k))
    return '\n'.join(lines) + '\n'


STAR_CYCLE = {'aa': 'from bb import *\nxa = 1\n', 'bb': 'from aa import *\nyb = 2\n', 'cc': 'from aa import *\nzc = 3\n'}


def run_listed_shape(case):
    """case: ('alias', n_alias, attrs_on, order) or ('cycle', order) -> (signature, case, detail) or None"""
    from supp.project import Project
    from supp import assistant
    root = tempfile.mkdtemp(prefix='c04s_')
    try:
        if case[0] == 'alias':
            _, n_alias, attrs_on, order = case
            with open(os.path.join(root, 'rm.py'), 'w') as f:
                f.write(receiver_alias_module(n_alias, attrs_on))
            exprs = ['rm.b'] + ['rm.c%d' % i for i in range(n_alias)]
            listed = {'extra%d' % k for k in range(len(attrs_on))}
            tag = 'receiver-alias-attribute-table'
        else:
            _, order = case
            for name, src in STAR_CYCLE.items():
                with open(os.path.join(root, name + '.py'), 'w') as f:
                    f.write(src)
            exprs = ['aa', 'bb', 'cc']
            listed = {'xa', 'yb'}
            tag = 'star-import-cycle-first-module'

        def ask(project, expr):
            src = 'import %s\n%s.' % (expr.split('.')[0], expr)
            with project.check_changes():
                r = assistant.assist(project, src, (2, len(expr) + 1), os.path.join(root, 'buffer.py'))
            return sorted(x for x in r[1] if not x.startswith('__'))
        project = Project([root])
        for step, i in enumerate(order):
            expr = exprs[i % len(exprs)]
            got = ask(project, expr)
            want = ask(Project([root]), expr)
            if got != want:
                diff = set(got) ^ set(want)
                sig = 'history-dependent-reply:assist' + (':' + tag if diff <= listed else ':listed-shape-module')
                return (sig, {'kind': 'listed-shape', 'case': [list(c) if isinstance(c, (list, tuple)) else c for c in case]},
                        'step %d: %s. replies %s on the long-lived project, %s on a new one' % (step + 1, expr, got, want))
    finally:
        shutil.rmtree(root, ignore_errors=True)
    return None


def w_listed_shapes(job):
    import itertools
    sh = Shard()
    cases = []
    for n_alias in (1, 2, 3):
        for attrs_on in ([n_alias - 1], [0], [-1, n_alias - 1], [0, n_alias - 1]):
            for order in itertools.permutations(range(n_alias + 1), min(3, n_alias + 1)):
                cases.append(('alias', n_alias, attrs_on, list(order) + list(order)))
    for order in itertools.product(range(3), repeat=3):
        cases.append(('cycle', list(order) + [0, 1, 2]))
    for case in cases[job::4]:
        bad = run_listed_shape(case)
        sh.case(case, True, {'listed_shape': case[0], 'order': case[-1]})
        sh.count('listed-shape-histories')
        if bad and bad[0] not in [v['signature'] for v in sh.violations]:
            sh.violation(*bad)        # classified centrally against the listed findings (KNOWN below)
    return sh.result()


# ---------------------------------------------------------------------------
# baseline from a fresh PROCESS: state kept at module / class level (a memo keyed by literal value, a shared set) survives a new
# Project, so "a new project in this process" cannot see it; one child process per request answers it first thing

PB_MODULE = ('retries = 1\ntimeout = 1.0\nenabled = True\ncount = 0\nscale = 0.0\noff = False\nname = ""\nraw = b""\nunit = 1j\n\n\n'
             'class Conf(object):\n    level = 0\n    ratio = 0.0\n\n    def __init__(self):\n        self.flag = False\n        self.size = 1\n'
             '        self.factor = 1.0\n\n\nconf = Conf()\nfrom undecodable import thing as bad_thing\nvia_bad = bad_thing\n')
PB_EXPRS = ['pb.retries', 'pb.timeout', 'pb.enabled', 'pb.count', 'pb.scale', 'pb.off', 'pb.name', 'pb.raw', 'pb.unit', 'pb.conf', 'pb.conf.flag',
            'pb.conf.size', 'pb.conf.factor', 'pb.Conf.level', 'pb.Conf.ratio',
            # requests that FAIL (the imported module is no valid UTF-8): they fail alike every time, and change nothing for the others
            'pb.via_bad', 'pb.bad_thing', 'pb.via_bad']
PB_CHILD = r'''
import sys, json
sys.path.insert(0, sys.argv[1])
from supp.project import Project
from supp import assistant
root, expr = sys.argv[2], sys.argv[3]
src = 'import pb\n' + expr + '.'
p = Project([root])
try:
    with p.check_changes():
        r = assistant.assist(p, src, (2, len(expr) + 1), root + '/buffer.py')
    json.dump(sorted(r[1]), sys.stdout)
except Exception as e:
    json.dump(['<raises>', type(e).__name__], sys.stdout)
'''


def w_process_baseline(job):
    import itertools
    import json
    import subprocess
    from supp.project import Project
    from supp import assistant
    seed, n_orders = job
    sh = Shard()
    rnd = random.Random(seed)
    root = tempfile.mkdtemp(prefix='c04p_')
    try:
        with open(os.path.join(root, 'pb.py'), 'w') as f:
            f.write(PB_MODULE)
        with open(os.path.join(root, 'undecodable.py'), 'wb') as f:
            f.write(b'# caf\xe9 (latin-1, no coding line)\nthing = 1\n')
        child = os.path.join(root, 'child.py')
        with open(child, 'w') as f:
            f.write(PB_CHILD)
        procs = [(e, subprocess.Popen([sys.executable, child, core.REPO, root, e], stdout=subprocess.PIPE, stderr=subprocess.PIPE,
                                      env=dict(os.environ, PYTHONDONTWRITEBYTECODE='1'))) for e in sorted(set(PB_EXPRS))]
        base = {}
        for e, p in procs:
            out, err = p.communicate(timeout=120)
            if p.returncode != 0:
                raise core.HarnessError('C04 baseline child failed: ' + err.decode('utf-8', 'replace')[-300:])
            base[e] = json.loads(out)

        def ask(project, expr):
            src = 'import pb\n' + expr + '.'
            try:
                with project.check_changes():
                    return sorted(assistant.assist(project, src, (2, len(expr) + 1), os.path.join(root, 'buffer.py'))[1])
            except Exception as e:
                return ['<raises>', type(e).__name__]
        for k in range(n_orders):
            order = list(PB_EXPRS)
            rnd.shuffle(order)
            project = Project([root])
            for step, e in enumerate(order):
                got = ask(project, e) if k % 2 == 0 else ask(Project([root]), e)
                if got != base[e]:
                    diff = sorted(set(got) ^ set(base[e]))[:6]
                    sh.violation('process-history-dependent-reply:assist', {'kind': 'process-baseline', 'order': order[:step + 1], 'new_project_each': k % 2 == 1},
                                 '%s. answered first in a fresh process: %d names; here after %s: %d names (differ in %s)' % (e, len(base[e]), order[:step], len(got), diff))
                    return sh.result()
            sh.case(order, True, {'process_baseline_order': order[:5]})
            sh.count('process-baseline-histories')
    finally:
        shutil.rmtree(root, ignore_errors=True)
    return sh.result()


def run(run):
    run.pmap(w_process_baseline, [(core.derive_seed(run.seed, 'c04pb', i), run.pick(6, 40)) for i in range(2)])
    run.pmap(w_listed_shapes, [0, 1, 2, 3])
    run.pmap(w_alias_chains, [(i, core.derive_seed(run.seed, 'c04a', i), run.pick(30, 500)) for i in range(4)])
    n = run.pick(25, 600)
    run.pmap(w_programs, [(i, core.derive_seed(run.seed, 'c04p', i), n) for i in range(16)])
    files = corpus.sample(core.derive_seed(run.seed, 'c04f'), run.pick(24, 600), include_repo=True, max_bytes=run.pick(40000, 400000))
    run.pmap(w_files, [(sh_, core.derive_seed(run.seed, 'c04fs', i), run.pick(24, 120), run.pick(6, 20), run.pick(40000, 150000)) for i, sh_ in enumerate(corpus.shards(files, 16))])
    run.pmap(w_histories, [(i, core.derive_seed(run.seed, 'c04h', i), run.pick(80, 600)) for i in range(12)])


def replay(case):
    out = []
    if case.get('kind') == 'program':
        probs, _ = check_module(case['src'], suppview.filename_for(case.get('package', False)), random.Random(case.get('oseed', 0)))
    elif case.get('kind') == 'process-baseline':
        r = w_process_baseline((0, 4))
        probs = [(v['signature'], v['detail']) for v in r['violations']]
    elif case.get('kind') == 'listed-shape':
        c = case['case']
        bad = run_listed_shape(tuple(c))
        probs = [(bad[0], bad[2])] if bad else []
    elif case.get('kind') == 'alias-chains':
        bad = run_alias_case(tuple(case['args']))
        probs = [(bad[0], bad[2])] if bad else []
    elif case.get('kind') == 'file':
        src = corpus.read(case['path'])
        probs, _ = check_module(src, case['path'], random.Random(case.get('seed', 0)), k_random=2,
                                baseline_sample=lambda ps: ps[:40], visible=False)
        if case.get('attr'):
            probs = list(probs) + check_attribute_order(src, case['path'], random.Random(core.derive_seed(case.get('seed', 0), case['path'])),
                                                        case['attr'][0], case['attr'][1])[0]
        if case.get('attr_keys'):       # witness form: evaluate exactly these attribute accesses front to back / back to front
            probs = list(probs) + attribute_witness(src, case['path'], [tuple(k) for k in case['attr_keys']])
    else:
        from supp.project import Project
        root = tempfile.mkdtemp(prefix='c04h_')
        probs = []
        try:
            write_mods(root)
            project = Project([root])
            for step, op in enumerate(case['ops']):
                op = tuple(op)
                with project.check_changes():
                    got = run_op(project, root, op)
                want = run_op(Project([root]), root, op)
                if got != want:
                    probs.append(('history-dependent-reply:%s' % op[0], 'step %d: %r vs %r' % (step + 1, got, want)))
                    break
        finally:
            shutil.rmtree(root, ignore_errors=True)
    seen = set()
    for sig, detail in probs:
        if sig not in seen:
            seen.add(sig)
            out.append({'signature': sig, 'case': case, 'detail': detail})
    return out


KNOWN_SIGS = {'C04-instance-attribute-table-depends-on-history': lambda sig: sig.endswith(':instance-attribute-table'),
              'C04-receiver-alias-attribute-table': lambda sig: sig.endswith(':receiver-alias-attribute-table'),
              'C04-star-import-cycle-first-module': lambda sig: sig.endswith(':star-import-cycle-first-module')}
_listed = {e['id'] for e in core.load_known(PROPERTY) if e.get('status') == 'finding'}
KNOWN = {fid: (lambda v, p=pred: p(v['signature'])) for fid, pred in KNOWN_SIGS.items() if fid in _listed}
