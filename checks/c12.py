"""C12 - completion contract: exact prefix, clean sorted proposals, transparent cursor."""
import ast
import os
import random
import re

from vlib import core, corpus, suppview
from vlib.core import Shard, Found

PROPERTY = 'C12'
LEVEL = 'exploration'
RULE = ('cursor at the end of and inside every sampled name read, attribute access and import name of real files and generated '
        'programs, plus synthetic lines that force every preceding-character class (start of line, space, ( [ { , = operators : ; '
        'string and comment context) before a half-typed identifier. Checked: (a) prefix == longest run of identifier characters '
        'left of the cursor, (b) proposals sorted, duplicate-free, identifiers, free of the cursor marker, (c) transparency: cursor at '
        'the end of a bare name => proposals == names visible at the cursor in the analysis of the UNMARKED source; cursor after '
        '`expr.` => proposals == attribute list the unmarked analysis gives expr. Non-trivial: preceding character other than '
        'space / dot / "(", or cursor strictly inside an identifier, or an attribute assignment on the line; distinct by (text, position).')
ASSUMPTIONS = ['identifier characters = what str.isidentifier accepts after the first character (letters, digits, underscore, combining marks ...)',
               'positions where assist raises SyntaxError on a marked text that does not parse are counted and skipped (C08 owns that rule)']

MARK = '__supp_mark__'


class _Word(object):
    """the longest run of identifier characters at the end of a text (decided with str.isidentifier, not with a regex class)"""
    class _M(object):
        def __init__(self, g):
            self.g = g

        def group(self):
            return self.g

    def search(self, text):
        i = len(text)
        while i and ('a' + text[i - 1]).isidentifier():
            i -= 1
        return self._M(text[i:])


WORD = _Word()


def char_col(line, byte_col):
    """ast columns are UTF-8 byte offsets, cursor columns count characters"""
    return byte_col if line.isascii() else len(line.encode('utf-8')[:byte_col].decode('utf-8', 'ignore'))


def byte_col(line, col):
    return col if line.isascii() else len(line[:col].encode('utf-8'))


def check_position(proj, src, pos, filename, tree_info, sh):
    """-> (signature, detail) or None.  tree_info: dict from unmarked_info()."""
    from supp import assistant
    lines = core.plines(src) or ['']
    ln, col = pos
    line = lines[ln - 1] if ln <= len(lines) else ''
    try:
        res = assistant.assist(proj, src, pos, filename)
    except SyntaxError:
        sh.count('assist:syntax-error')
        return None
    except Exception as e:
        sh.count('assist:raised-%s' % type(e).__name__)     # C08's subject
        return None
    prefix, props = res
    want = WORD.search(line[:col]).group()
    if prefix != want:
        prev = line[col - len(want) - 1:col - len(want)] if col - len(want) > 0 else '^'
        return ('prefix:after-%r' % _cls(prev), 'line %r cursor col %d: prefix %r, expected %r' % (line[:col + 5], col, prefix, want))
    if props != sorted(props):
        return ('proposals-not-sorted', repr(props[:10]))
    if len(set(props)) != len(props):
        return ('proposals-duplicates', repr([p for p in props if props.count(p) > 1][:5]))
    for p in props:
        if MARK in p:
            return ('proposals-contain-marker', '%r proposed at %s (line %r)' % (p, pos, line[:80]))
        if not p.isidentifier():
            return ('proposal-not-an-identifier', '%r proposed at %s (line %r)' % (p, pos, line[:80]))
    # transparency
    info = tree_info.get((ln, byte_col(line, col)))        # the unmarked analysis is keyed by parser (byte) columns
    if info:
        kind, expected = info()
        if expected is not None and props != expected:
            extra = [p for p in props if p not in expected][:5]
            missing = [p for p in expected if p not in props][:5]
            return ('transparency:%s' % kind, 'cursor %s line %r: marked analysis proposes %d names, unmarked analysis %d; only marked %s, only unmarked %s' % (
                pos, line[:80], len(props), len(expected), extra, missing))
        sh.count('transparency-checked:' + kind)
    return None


def _cls(ch):
    if ch == '^':
        return 'line-start'
    if ch.isspace():
        return 'space'
    if ch in '([{':
        return ch
    if ch in '+-*/%<>=!&|^~@':
        return 'operator' if ch != '=' else '='
    return ch


def unmarked_info(proj, src, filename):
    """{cursor position: thunk -> (kind, expected proposals)} from ONE analysis of the unmarked source."""
    from supp.evaluator import EvalCtx
    try:
        s, scope = suppview.analyse(src, filename, proj)
    except Exception:
        return {}, None
    out = {}
    for n in ast.walk(s.tree):
        if isinstance(n, ast.Name) and isinstance(n.ctx, ast.Load) and hasattr(n, 'flow'):
            pos = (n.lineno, n.col_offset + len(n.id))

            def thunk(n=n, pos=pos):
                return 'bare-name', sorted(n.flow.names_at(pos))
            out[pos] = thunk
        elif isinstance(n, ast.Attribute) and isinstance(n.ctx, ast.Load) and n.end_lineno == n.lineno:
            for pos in ((n.end_lineno, n.end_col_offset), (n.end_lineno, n.end_col_offset - len(n.attr))):
                def thunk(n=n):
                    ctx = EvalCtx(proj)
                    try:
                        v = ctx.evaluate(n.value)
                    except Exception:
                        return 'attribute', None
                    names = v.attr_list(ctx) if v else {}
                    # a live runtime object whose class hooks attribute access (unittest.mock): looking at it changes it
                    live = getattr(v, 'value', None)
                    if live is not None and not isinstance(live, type) and hasattr(type(live), '__getattr__'):
                        return 'attribute:live-object-with-dynamic-attributes', sorted(names)
                    return 'attribute', sorted(names)
                out[pos] = thunk
    return out, s.tree


def positions_of(src, tree, rnd, n):
    out = []
    names, attrs, imports, stores = [], [], [], []
    for node in ast.walk(tree):
        if isinstance(node, ast.Name) and isinstance(node.ctx, ast.Load):
            names.append(node)
        elif isinstance(node, ast.Attribute) and node.end_lineno == node.lineno:
            (attrs if isinstance(node.ctx, ast.Load) else stores).append(node)
        elif isinstance(node, (ast.Import, ast.ImportFrom)):
            imports.append(node)
    for lst in (names, attrs, imports, stores):
        rnd.shuffle(lst)
    for node in names[:n]:
        out.append(((node.lineno, node.col_offset + len(node.id)), 'name-end'))
        if len(node.id) > 1:
            out.append(((node.lineno, node.col_offset + rnd.randrange(1, len(node.id))), 'name-inside'))
    for node in attrs[:n]:
        e = node.end_col_offset
        out.append(((node.lineno, e), 'attr-end'))
        out.append(((node.lineno, e - len(node.attr)), 'after-dot'))
        if len(node.attr) > 1:
            out.append(((node.lineno, e - rnd.randrange(1, len(node.attr))), 'attr-inside'))
    for node in stores[:max(2, n // 3)]:
        e = node.end_col_offset
        out.append(((node.lineno, e), 'attr-store-end'))
        if len(node.attr) > 1:
            out.append(((node.lineno, e - rnd.randrange(1, len(node.attr))), 'attr-store-inside'))
    lines = core.plines(src)
    for node in imports[:max(2, n // 4)]:
        if node.lineno == node.end_lineno and node.lineno <= len(lines):
            line = lines[node.lineno - 1]
            for m in re.finditer(r'\w+', line):
                out.append(((node.lineno, m.end()), 'import-name-end'))
                if m.end() - m.start() > 1:
                    out.append(((node.lineno, m.start() + 1), 'import-name-inside'))
    return out


PRECEDERS = ['', ' ', 'raise ValueError(1) from ', 'raise a from ', 'def gen(): yield from ', 'def gen(): x = yield from ', 'async def co(): await ',
             'def gen(): return (yield from ', 'f(', 'f (', 'a[', 'q = [', '{', 'd = {1: ', 'f(a,', 'f(a, ', 'y=', 'y = ', 'y += ', 'a+', 'a -', 'a*', 'a**', 'a/', 'a//', 'a%', 'a@',
             'a<', 'a>', 'a<=', 'a==', 'a!=', 'a&', 'a|', 'a^', 'a>>', '~', '-', 'not ', 'a and ', 'if a:', 'lambda:', 'lambda q:', 'a if b else ',
             'print(a);', 'x = 1;', '(a,', '[a,', 'f(*', 'f(**', 'return ', 'yield ', 'assert ', 'del ', 'raise ', 'with ', 'for q in ', 'while ', 'f"{',
             'a.b(', 'a.b[', 'x: ', 'x:', '@', 'print(\'s\', ', 'a[1:', 'a if ', 'z = y if x else ', 'f(x)(', 'a\t', 'a=\t']
NON_CODE = ['"some ', "'x", '# comment ', 'x = "a ', 's = """doc ']


def synthetic_cases():
    """(src, pos, label): half-typed identifier `fo`/`foo.ba` after every preceder."""
    out = []
    head = 'foo = 1\nfoobar = 2\nclass K:\n    bar = 1\n    baz = 2\nk = K()\na = b = q = d = x = y = z = 0\ndef f(*a, **k): return f\n'
    nl = head.count('\n')
    for p in PRECEDERS:
        for ident in ('fo', 'foo', 'k.ba', 'k.', 'K.b', 'k.bar', 'foobar'):
            line = p + ident
            out.append((head + line + '\n', (nl + 1, len(line)), 'after:%r' % p))
            if '.' not in ident and len(ident) > 2:
                out.append((head + line + '\n', (nl + 1, len(line) - 1), 'inside-after:%r' % p))
    # characters that str.splitlines() treats as line breaks but the parser does not, and CRLF line ends, before the cursor line
    for sep_label, h2 in (('formfeed-line', head + '\x0c\n'), ('formfeed-in-comment', head + '# a\x0cb \x1c\n'),
                          ('formfeed-in-string', head + "s = 'a\x0cb'\n"), ('crlf', head.replace('\n', '\r\n'))):
        for ident in ('fo', 'k.ba', 'K.b'):
            out.append((h2 + 'print(' + ident + ')\n', (h2.count('\n') + 1, len('print(' + ident)), 'line-separators:' + sep_label))
    # non-ASCII text left of the cursor on the cursor line (parser columns are bytes, cursor columns characters): string
    # literals, identifiers, comments; bindings made earlier on the same line must be visible
    for p in ("s = '\u00e9\u00e9\u00e9\u00e9\u00e9'; ", '\u00e9t\u00e9 = 1; ', "q = ['\u4e2d\u6587', ", 'print("\u00fc\u00fc"); foz = 2; y = ', 'f(\u00e9t\u00e9=1, z=',
              "'\U0001f600' if x else ", "s='\u00e9\u00e9\u00e9\u00e9\u00e9\u00e9\u00e9\u00e9\u00e9\u00e9\u00e9';foz=2;", '\u00e9\u00e9\u00e9\u00e9\u00e9\u00e9\u00e9=1;y=',
              "w = '\u4e2d\u6587\u4e2d\u6587'; foz = k; "):
        for ident in ('fo', 'foo', 'k.ba', 'k.', 'K.b', 'foobar', 'fooba', 'foz', 'foz.ba', '\u00e9\u00e9'):
            line = p + ident
            out.append((head + '\u00e9t\u00e9 = 0\n' + line + '\n', (nl + 2, len(line)), 'non-ascii-before-cursor'))
            out.append((head + '\u00e9t\u00e9 = 0\n' + line + '; foo\n', (nl + 2, len(line)), 'non-ascii-before-cursor'))
    # identifiers written with combining marks (NFD): the marks continue the identifier
    for ident in ('cafe\u0301', 'cafe\u0301s', 'k.bar\u0327', 'na\u0303o_1'):
        for p in ('', 'y = ', 'f('):
            line = p + ident
            out.append((head + 'cafe\u0301 = cafe\u0301s = na\u0303o_1 = 0\n' + line + '\n', (nl + 2, len(line)), 'combining-marks'))
    # a lone carriage return is a line end for the parser (classic Mac files, a stray \r before \r\n)
    for h2, label in ((head.replace('\n', '\r'), 'cr-only'), (head.replace('foobar = 2\n', 'foobar = 2\r'), 'one-lone-cr'),
                      (head.replace('foobar = 2\n', 'foobar = 2\r\r\n'), 'cr-cr-lf'), (head.replace('k = K()\n', 'k = K()\r\n\r'), 'crlf-cr')):
        nlines = len(core.plines(h2))
        for ident in ('fo', 'foobar', 'k.ba', 'K.b'):
            out.append((h2 + 'print(' + ident + ')\n', (nlines + 1, len('print(' + ident)), 'line-separators:' + label))
            out.append((h2 + 'y = ' + ident + '\rz = 1\r\n', (nlines + 1, len('y = ' + ident)), 'line-separators:' + label))
    # a continuation line that merely STARTS with `from `: part of a raise ... from / yield from, not an import
    for pre, tail in (('def g(errs):\n    raise ValueError(1) \\\n        from ', ''), ('def g(errs):\n    x = yield \\\n      from ', ''),
                      ('def g(errs):\n    raise (ValueError(1)\n        ) from \\\n from_ if ', ' else k')):
        for ident in ('fo', 'foo', 'k.ba', 'k.', 'foobar', 'errs'):
            text = head + pre + ident + tail + '\n'
            lines_ = core.plines(head + pre + ident)
            out.append((text, (len(lines_), len(lines_[-1])), 'continuation-line-starting-with-from'))
    for p in NON_CODE:
        for ident in ('fo', 'k.ba'):
            line = p + ident
            out.append((head + line + '\n', (nl + 1, len(line)), 'noncode:%r' % p))
    # attribute assignment lines
    for line, col in (('k.bar = 1', 5), ('k.ba = 1', 4), ('k.bar = k.ba', 12), ('self = k; self.bar = 1', 18), ('k.bar, k.baz = 1, 2', 11),
                      ('k.bar: int = 1', 5), ('k.ba: int = 1', 3), ('k.bar: int', 5), ('k.bar += 1', 5), ('for k.bar in []: pass', 9),
                      ('with open(f) as k.bar: pass', 21), ('del k.bar', 9), ('k.bar = k.baz = 3', 13)):
        out.append((head + line + '\n', (nl + 1, col), 'attr-assign-line'))
        out.append((head + 'class M:\n    def m(self):\n        self.other = 1\n        self.bar = 2\n        return self.o\n', (nl + 4, 14), 'attr-assign-line'))
    for body, pos in (('        self.total: int = 0\n        self.count: int\n        return self.to\n', (nl + 3, 18)),
                      ('        self.total: int = 0\n        self.count: int\n        return self.to\n', (nl + 3, 16)),
                      ('        self.total: int = 0\n        self.count: int\n        return self.to\n', (nl + 4, 18)),
                      ('        self.total: int = 0\n        self.count: int\n        return self.to\n', (nl + 5, 22))):
        out.append((head + 'class M:\n    def m(self):\n' + body, pos, 'annotated-attr-assign'))
    return out


def w_files(job):
    files, seed, n = job
    sh = Shard()
    rnd = random.Random(seed)
    for path in files:
        src = corpus.read(path)
        if src is None:
            continue
        tree, why = corpus.parse_in_domain(src, path)
        if tree is None:
            sh.count('file-skipped:' + why.split(':')[0])
            continue
        sh.count('files')
        proj = suppview.project()
        info, _ = unmarked_info(proj, src, path)
        lines = core.plines(src)
        first = {}
        asked = []
        for pos, pclass in positions_of(src, tree, rnd, n):
            line = lines[pos[0] - 1] if pos[0] <= len(lines) else ''
            if not line.isascii():
                pos = (pos[0], char_col(line, pos[1]))
                sh.count('non-ascii-line')
            w = WORD.search(line[:pos[1]]).group()
            prev = line[pos[1] - len(w) - 1:pos[1] - len(w)] if pos[1] - len(w) > 0 else '^'
            nontrivial = prev not in (' ', '.', '(') or 'inside' in pclass or 'store' in pclass
            sh.case((core.digest(src), pos), nontrivial, {'file': os.path.relpath(path, '/'), 'pos': pos, 'class': pclass, 'line': line[:100]})
            sh.count('pos:' + pclass)
            sh.count('prev:' + _cls(prev))
            bad = check_position(proj, src, pos, path, info, sh)
            if bad and bad[0] not in first:
                first[bad[0]] = (pos, bad[1], list(asked))
            asked.append(pos)
        for sig, (pos, detail, before) in first.items():
            small = _minimise(src, pos, path, sig)
            if not _reproduces(small['src'], tuple(small['pos']), path, sig, []):
                # the failure needs the requests made before it on the same project: keep the file, shrink the history
                small = {'src': src, 'pos': list(pos), 'filename': path, 'history': [list(h) for h in _minimise_history(src, pos, path, sig, before)]}
                sig = classify_history_case(sig, small, detail)
            sh.violation(sig, small, detail)
    return sh.result()


def classify_history_case(sig, case, detail):
    """A transparency failure that exists only after other requests on the same project, whose receiver is an instance of a
    source class and whose differing names are all attributes that base classes assign through self, is the listed finding
    (instance attribute tables memoised while an evaluation guard had cut a nested evaluation short)."""
    if sig != 'transparency:attribute' or not case.get('history'):
        return sig
    import re as _re
    m = _re.search(r"only marked (\[.*?\]), only unmarked (\[.*?\])", detail)
    if not m:
        return sig
    diff = set(ast.literal_eval(m.group(1))) | set(ast.literal_eval(m.group(2)))
    src = case['src'] if case.get('src') is not None else corpus.read(case['filename'])
    line = core.plines(src)[case['pos'][0] - 1][:case['pos'][1]]
    recv_end = len(line) - len(WORD.search(line).group()) - 1          # column of the dot
    names = suppview.base_assigned_names(src, case['filename'], case['pos'][0], recv_end)
    if names and diff and diff <= names:
        return 'transparency:attribute:instance-attribute-table-depends-on-history'
    return sig


def _reproduces(src, pos, filename, sig, history):
    proj = suppview.project()
    info, _ = unmarked_info(proj, src, filename)
    sh = Shard()
    for h in history:
        check_position(proj, src, tuple(h), filename, info, sh)
    b = check_position(proj, src, pos, filename, info, sh)
    return bool(b) and b[0] == sig


def _minimise_history(src, pos, filename, sig, history):
    h = list(history)
    if not _reproduces(src, pos, filename, sig, h):
        return h
    for _ in range(40):
        if len(h) <= 1:
            break
        a, b = h[:len(h) // 2], h[len(h) // 2:]
        if _reproduces(src, pos, filename, sig, b):
            h = b
        elif _reproduces(src, pos, filename, sig, a):
            h = a
        else:
            break
    return h


def _minimise(src, pos, filename, sig):
    """keep the cursor line, ddmin the others"""
    lines = core.plines(src)
    marker = '\x00CURSOR\x00'
    if pos[0] > len(lines):
        return {'src': src, 'pos': list(pos), 'filename': filename}
    keep = lines[pos[0] - 1]

    def split(cand):
        cl = core.plines(cand)
        idx = [i for i, l in enumerate(cl) if l == keep + marker]
        if len(idx) != 1:
            return None
        cl[idx[0]] = keep
        return '\n'.join(cl) + '\n', (idx[0] + 1, pos[1])

    def still(cand):
        sp = split(cand)
        if not sp:
            return False
        s2, p2 = sp
        proj = suppview.project()
        info, _ = unmarked_info(proj, s2, filename)
        b = check_position(proj, s2, p2, filename, info, Shard())
        return bool(b) and b[0] == sig
    tagged = '\n'.join(lines[:pos[0] - 1] + [keep + marker] + lines[pos[0]:]) + '\n'
    try:
        if len(src) < 60000 and still(tagged):
            small = core.minimise_lines(tagged, still, max_steps=120)
            s2, p2 = split(small)
            return {'src': s2, 'pos': list(p2), 'filename': filename}
    except Exception:
        pass
    return {'src': src, 'pos': list(pos), 'filename': filename}


def w_synthetic(job):
    sh = Shard()
    fn = suppview.filename_for(False)
    first = {}
    for src, pos, label in synthetic_cases():
        proj = suppview.project()
        # when the line is complete Python (the identifier fully typed) the transparency rule applies as well
        try:
            ast.parse(src)
            info, _ = unmarked_info(proj, src, fn)
        except SyntaxError:
            info = {}
        sh.case((src, pos), True, {'line': core.plines(src)[pos[0] - 1], 'pos': pos, 'label': label})
        sh.count('synthetic')
        bad = check_position(proj, src, pos, fn, info, sh)
        if bad and bad[0] not in first:
            first[bad[0]] = ({'src': src, 'pos': list(pos), 'filename': fn}, bad[1])
    for sig, (case, detail) in first.items():
        sh.violation(sig, case, detail)
    return sh.result()


def w_programs(job):
    from vlib.gen.programs import programs
    idx, seed, n = job
    sh = Shard()
    rnd = random.Random(seed)

    def prop(prog):
        src = prog['src']
        fn = suppview.filename_for(prog['package'])
        try:
            tree = ast.parse(src)
        except SyntaxError:
            return
        proj = suppview.project()
        info, _ = unmarked_info(proj, src, fn)
        lines = core.plines(src)
        sh.count('programs')
        for pos, pclass in positions_of(src, tree, rnd, 8):
            line = lines[pos[0] - 1]
            w = WORD.search(line[:pos[1]]).group()
            prev = line[pos[1] - len(w) - 1:pos[1] - len(w)] if pos[1] - len(w) > 0 else '^'
            sh.case((src, pos), prev not in (' ', '.', '(') or 'inside' in pclass, {'line': line, 'pos': pos, 'class': pclass})
            sh.count('prev:' + _cls(prev))
            bad = check_position(proj, src, pos, fn, info, sh)
            if bad and bad[0] not in sh.excluded:
                raise Found(bad[0], {'src': src, 'pos': list(pos), 'filename': fn}, bad[1])
    core.hyp_search(sh, prop, programs('c01'), seed, n, shrink=False, max_rounds=4,
                    minimise=lambda f: Found(f.signature, _minimise(f.case['src'], tuple(f.case['pos']), f.case['filename'], f.signature), f.detail))
    return sh.result()


def run(run):
    run.pmap(w_synthetic, [0])
    files = corpus.sample(core.derive_seed(run.seed, 'c12f'), run.pick(50, 1750), include_repo=True, max_bytes=run.pick(50000, None))
    run.pmap(w_files, [(s, core.derive_seed(run.seed, 'c12', i), run.pick(12, 60)) for i, s in enumerate(corpus.shards(files, 16))])
    run.pmap(w_programs, [(i, core.derive_seed(run.seed, 'c12p', i), run.pick(40, 1000)) for i in range(16)])


def replay(case):
    fn = case.get('filename') or suppview.filename_for(False)
    proj = suppview.project()
    src = case['src'] if case.get('src') is not None else corpus.read(fn)
    info, _ = unmarked_info(proj, src, fn)
    for h in case.get('history', ()):
        check_position(proj, src, tuple(h), fn, info, Shard())
    bad = check_position(proj, src, tuple(case['pos']), fn, info, Shard())
    if bad:
        sig = classify_history_case(bad[0], dict(case, filename=fn), bad[1]) if case.get('history') else bad[0]
        return [{'signature': sig, 'case': case, 'detail': bad[1]}]
    return []


KNOWN_SIGS = {'C12-live-object-with-dynamic-attributes': lambda sig: sig == 'transparency:attribute:live-object-with-dynamic-attributes',
              'C12-instance-attribute-table-depends-on-history': lambda sig: sig == 'transparency:attribute:instance-attribute-table-depends-on-history'}
_listed = {e['id'] for e in core.load_known(PROPERTY) if e.get('status') == 'finding'}
KNOWN = {fid: (lambda v, p=pred: p(v['signature'])) for fid, pred in KNOWN_SIGS.items() if fid in _listed}
