"""C14 - MessagePack codec: lossless, spec-conformant, rejects truncation.

Generated-input search against a reference codec written from the specification
(vlib/ref/msgpack_ref.py).  Four streams:
  boundary  exhaustive: ints within +-3 of every format boundary, lengths within +-2 of every
            length boundary for str/bin/ext/array/map, all 256 first bytes, every cut point
  values    Hypothesis recursive values to depth 6 (round trip both ways + prefixes)
  anyfmt    reference encoder choosing arbitrary legal formats -> supp.loads
  bytes     raw byte strings: supp.loads and the reference decoder must agree
            (thorough: coverage-guided atheris on the same target)
"""
import os
import struct
import sys

from vlib import core
from vlib.core import Shard, Found
from vlib.ref import msgpack_ref as ref

PROPERTY = 'C14'
LEVEL = 'exploration'
RULE = ('boundary sets enumerated exhaustively (ints +-3 of 2^5,2^7,2^8,2^15,2^16,2^31,2^32,2^63,2^64 both signs; '
        'lengths +-2 of 15/16,31/32,255/256,65535/65536 for str/bin/ext/array/map; 256 first bytes x 3 paddings; '
        'every cut point of encodings <= 4096 bytes, header+sampled cut points above); Hypothesis recursive values '
        'depth<=6; reference encoder with arbitrary legal formats; raw byte differential. A case is non-trivial if '
        'it crosses a format boundary, nests >= 2 levels, uses a non-minimal form, or (bytes stream) is accepted by '
        'the reference decoder with >= 2 objects; distinct by encoded bytes.')
ASSUMPTIONS = ['reference codec vlib/ref/msgpack_ref.py implements the MessagePack spec (self-tested against spec vectors on every run)',
               'map keys are restricted to hashable Python values (nil, bool, int, float, str, bytes, ext, arrays of those); maps as keys and keys that collide as Python values (1 / 1.0 / True) cannot be held by a dict and are outside the value domain',
               'compatibility flag left at its default (False), as supp.remote/supp.server use it']


def um():
    from supp import umsgpack
    return umsgpack


def supp_loads(data):
    u = um()
    try:
        return ('ok', u.loads(data))
    except u.InsufficientDataException:
        return ('insufficient', None)
    except u.ReservedCodeException:
        return ('reserved', None)
    except u.InvalidStringException:
        return ('invalid-string', None)
    except (u.UnhashableKeyException, u.DuplicateKeyException):
        return ('key', None)
    except Exception as e:
        return ('exc:' + type(e).__name__, None)


def to_supp(v):
    """Reference-side value -> value handed to supp.dumps (RExt -> supp Ext)."""
    u = um()
    if isinstance(v, ref.RExt):
        return u.Ext(v.type, v.data)
    if isinstance(v, list):
        return [to_supp(i) for i in v]
    if isinstance(v, tuple):
        return tuple(to_supp(i) for i in v)
    if isinstance(v, dict):
        return {to_supp(k): to_supp(x) for k, x in v.items()}
    return v


def check_shared(v):
    """values that contain one list / dict object several times by identity encode like the equal value built from fresh objects"""
    u = um()
    try:
        sv = to_supp(v)
    except Exception:
        return None
    for label, shared, fresh in (('[x, x]', [sv, sv], [v, v]), ('{a: x, b: x}', {'a': sv, 'b': sv}, {'a': v, 'b': v}),
                                 ('[x, [x], {k: x}]', [sv, [sv], {'k': sv}], [v, [v], {'k': v}])):
        try:
            enc = u.dumps(shared)
        except Exception as e:
            return ('shared-container:dumps-raises:%s' % type(e).__name__, '%s with x = %r: %r' % (label, v, e))
        if enc != ref.encode(fresh) and ref.canon(ref.decode(enc)) != ref.canon(fresh):
            return ('shared-container:encoding-wrong-value', '%s with x = %r' % (label, v))
        try:
            back = u.loads(enc)
        except Exception as e:
            return ('shared-container:roundtrip-rejected:%s' % type(e).__name__, label)
        if ref.canon(back) != ref.canon(fresh):
            return ('shared-container:roundtrip-differs', label)
    return None


def depth(v):
    if isinstance(v, (list, tuple)):
        return 1 + max([depth(i) for i in v] or [0])
    if isinstance(v, dict):
        return 1 + max([max(depth(k), depth(x)) for k, x in v.items()] or [0])
    return 0


def cut_points(n, rnd, heavy=False):
    if n <= 4096:
        return range(n)
    tail, extra = (3, 6) if heavy else (12, 40)
    pts = set(range(0, 24)) | set(range(n - tail, n))
    for _ in range(extra):
        pts.add(rnd.randrange(n))
    return sorted(pts)


def check_value(v, rnd, prefixes=True):
    """All C14 oracles for one reference-side value. Returns (encoding, violation or None)."""
    u = um()
    try:
        sv = to_supp(v)
    except Exception as e:
        return None, ('construct:%s' % type(e).__name__, 'cannot construct value: %r' % (e,))
    try:
        enc = u.dumps(sv)
    except Exception as e:
        return None, ('dumps-raises:%s' % type(e).__name__, repr(e))
    if not isinstance(enc, bytes):
        return None, ('dumps-type', repr(type(enc)))
    want = ref.canon(v)
    # (1) independent decoder reads the same value back, consuming everything
    try:
        rv, pos = ref.decode(enc)
    except ref.RefError as e:
        return enc, ('invalid-encoding:%s' % e.kind, 'reference decoder rejects dumps() output')
    if pos != len(enc):
        return enc, ('encoding-trailing-bytes', 'reference decoder consumed %d of %d' % (pos, len(enc)))
    if ref.canon(rv) != want:
        return enc, ('encoding-wrong-value', 'reference decoder read %r' % (rv,))
    # (2) round trip through supp
    cls, back = supp_loads(enc)
    if cls != 'ok':
        return enc, ('roundtrip-rejected:%s' % cls, 'loads(dumps(v)) raised')
    try:
        got = ref.canon(back)
    except TypeError as e:
        return enc, ('roundtrip-type', str(e))
    if got != want:
        return enc, ('roundtrip-changed', 'loads(dumps(v)) = %r' % (back,))
    # (3) every proper prefix is insufficient data
    if prefixes:
        heavy = isinstance(v, (list, tuple, dict)) and len(v) > 4096
        for cut in cut_points(len(enc), rnd, heavy):
            c, _ = supp_loads(enc[:cut])
            if c != 'insufficient':
                return enc, ('prefix-not-rejected:%s' % c, 'cut=%d of %d' % (cut, len(enc)))
    return enc, None


def check_stream(v, choices):
    """Reference encoder with arbitrary legal formats -> supp.loads must return v."""
    it = iter(choices)

    def choose(n):
        try:
            return next(it)
        except StopIteration:
            return 0
    data = ref.encode(v, choose)
    cls, back = supp_loads(data)
    if cls != 'ok':
        return data, ('valid-stream-rejected:%s' % cls, 'first byte 0x%02x' % data[0])
    if ref.canon(back) != ref.canon(v):
        return data, ('valid-stream-wrong-value', 'loads gave %r' % (back,))
    return data, None


def check_bytes(data):
    """Differential on arbitrary bytes. Returns (class, violation or None)."""
    try:
        rv, pos = ref.decode(data)
        rcls = 'ok'
    except ref.RefError as e:
        rv, rcls = None, e.kind
    except RecursionError:
        return 'deep', None
    try:
        scls, sv = supp_loads(data)
    except RecursionError:
        return 'deep', None
    if rcls == 'ok':
        if ref.key_problem(rv):
            if scls not in ('ok', 'key'):
                return 'keyproblem', ('bytes-keyproblem:%s' % scls, 'map with unhashable/duplicate keys')
            return 'keyproblem', None
        if scls != 'ok':
            return 'valid', ('valid-stream-rejected:%s' % scls, 'reference accepts, first byte 0x%02x' % data[0])
        if ref.canon(sv) != ref.canon(rv):
            return 'valid', ('valid-stream-wrong-value', 'supp %r ref %r' % (sv, rv))
        return 'valid', None
    # reference rejects: supp must reject too; the class must match unless a key problem
    # (python-specific, raised earlier than the spec-level defect) precedes it
    if scls == 'ok':
        return rcls, ('invalid-stream-accepted:%s' % rcls, 'supp returned %r' % (sv,))
    if scls.startswith('exc:'):
        return rcls, ('bytes-exception:%s' % scls[4:], 'reference says %s' % rcls)
    if scls != rcls and scls != 'key':
        return rcls, ('bytes-class-mismatch:%s-vs-%s' % (scls, rcls), '')
    return rcls, None


# ---------------------------------------------------------------------------
# exhaustive boundary part

INT_BOUNDS = [2 ** 5, 2 ** 7, 2 ** 8, 2 ** 15, 2 ** 16, 2 ** 31, 2 ** 32, 2 ** 63, 2 ** 64]
LEN_BOUNDS = [15, 16, 31, 32, 255, 256, 65535, 65536]


def boundary_ints():
    s = set()
    for b in INT_BOUNDS:
        for d in range(-3, 4):
            s.add(b + d)
            s.add(-b + d)
    s.update(range(-3, 4))
    return sorted(s)


def boundary_lengths():
    s = set()
    for b in LEN_BOUNDS:
        for d in range(-2, 3):
            s.add(b + d)
    s.update([0, 1, 2, 4, 8])
    return sorted(s)


def w_boundary(job):
    import random
    part, seed = job
    rnd = random.Random(seed)
    sh = Shard()
    u = um()
    if part == 'ints':
        for n in boundary_ints():
            if -2 ** 63 <= n < 2 ** 64:
                enc, bad = check_value(n, rnd)
                sh.case(('int', n), True, {'int': n, 'encoding': enc.hex() if enc else None})
                if bad:
                    sh.violation('int:' + bad[0], {'kind': 'value', 'value': repr(n)}, bad[1])
                    continue
                for i, fmt in enumerate(ref._int_formats(n)):
                    cls, back = supp_loads(fmt)
                    sh.case(('intfmt', fmt), len(fmt) != len(enc))
                    if cls != 'ok' or type(back) is not int or back != n:
                        sh.violation('int:valid-stream-wrong-value', {'kind': 'bytes', 'data': fmt},
                                     'format %s of %d -> %s %r' % (fmt.hex(), n, cls, back))
                    for cut in range(len(fmt)):
                        if supp_loads(fmt[:cut])[0] != 'insufficient':
                            sh.violation('prefix-not-rejected', {'kind': 'bytes', 'data': fmt[:cut]}, 'int format prefix')
            else:
                sh.case(('int-out', n), True, {'out_of_range_int': str(n)})
                try:
                    out = u.dumps(n)
                except u.UnsupportedTypeException:
                    sh.count('out_of_range_refused')
                except Exception as e:
                    sh.violation('int-out-of-range-wrong-exception:' + type(e).__name__,
                                 {'kind': 'value', 'value': repr(n)}, repr(e))
                else:
                    sh.violation('int-out-of-range-wrapped', {'kind': 'value', 'value': repr(n)},
                                 'dumps returned %s' % out.hex())
                # also inside a container
                try:
                    u.dumps([1, {'k': n}])
                except u.UnsupportedTypeException:
                    pass
                except Exception as e:
                    sh.violation('int-out-of-range-wrong-exception:' + type(e).__name__,
                                 {'kind': 'value', 'value': repr([1, {'k': n}])}, repr(e))
                else:
                    sh.violation('int-out-of-range-wrapped', {'kind': 'value', 'value': repr([1, {'k': n}])}, 'nested')
    elif part.startswith('len-'):
        fam, _, which = part[4:].partition('@')
        lens = [L for L in boundary_lengths() if (L < 60000 if which == 'small' else str(L) == which)] if which else boundary_lengths()
        for L in lens:
            vals = []
            if fam == 'str':
                vals = ['a' * L]
                if L >= 2:
                    vals.append('é' * (L // 2) + 'a' * (L % 2))      # same byte length, fewer chars
                    vals.append('\U0001f600' * (L // 4) + 'b' * (L % 4))
                vals.append('é' * L)                                  # char length L, byte length 2L
            elif fam == 'bin':
                vals = [b'\x00' * L, bytes(range(256)) * (L // 256) + bytes(range(L % 256))]
            elif fam == 'ext':
                vals = [ref.RExt(1, b'\xff' * L), ref.RExt(127, b'\x00' * L), ref.RExt(0, b'\x7f' * L)]
            elif fam == 'array':
                vals = [[None] * L, [i for i in range(L)]]
            elif fam == 'map':
                vals = [{i: None for i in range(L)}, {str(i): i for i in range(L)}]
            for v in vals:
                enc, bad = check_value(v, rnd)
                sh.case((fam, L, enc[:8] if enc else None, len(enc or b'')), True,
                        {'family': fam, 'length': L, 'encoding_head': enc[:6].hex() if enc else None})
                if bad:
                    sh.violation('%s:%s' % (fam, bad[0]), {'kind': 'lenvalue', 'family': fam, 'length': L,
                                                          'variant': vals.index(v)}, bad[1])
                    continue
                # all legal (non-minimal) headers for this length
                for k in range(4 if L < 60000 else 2):
                    data, bad = check_stream(v, [k] + [0] * 8)
                    sh.case(('stream', fam, L, data[:8]), data[:1] != enc[:1])
                    if bad:
                        sh.violation('%s:%s' % (fam, bad[0]), {'kind': 'bytes-head', 'family': fam, 'length': L,
                                                              'choice': k, 'variant': vals.index(v)}, bad[1])
    elif part == 'firstbytes':
        pads = [b'', b'\x00' * 24, b'\x01' * 700, b'\xa1a' * 40, b'\xc0' * 64, b'\x81' * 9 + b'\x01' * 40]
        for b in range(256):
            for pad in pads:
                data = bytes([b]) + pad
                cls, bad = check_bytes(data)
                sh.case(data, cls == 'valid' and b >= 0x80, {'first_byte': '0x%02x' % b, 'pad': pad[:4].hex(), 'class': cls})
                sh.count('firstbyte-class:' + cls)
                if bad:
                    sh.violation('firstbyte-0x%02x:%s' % (b, bad[0]), {'kind': 'bytes', 'data': data}, bad[1])
    return sh.result()


# ---------------------------------------------------------------------------
# Hypothesis part

def value_strategy():
    from hypothesis import strategies as st
    ints = st.one_of(
        st.integers(-2 ** 63, 2 ** 64 - 1),
        st.integers(-40, 300),
        st.sampled_from(boundary_ints()).filter(lambda n: -2 ** 63 <= n < 2 ** 64),
    )
    floats = st.one_of(st.floats(allow_nan=True, allow_infinity=True),
                       st.floats(width=32, allow_nan=False),
                       st.sampled_from([0.0, -0.0, float('inf'), float('-inf'), float('nan'), 1e308, 5e-324]))
    texts = st.one_of(st.text(max_size=40),
                      st.text(alphabet=st.characters(min_codepoint=0x80, max_codepoint=0x10ffff,
                                                     blacklist_categories=('Cs',)), max_size=20),
                      st.integers(0, 300).map(lambda n: 'x' * n))
    bins = st.one_of(st.binary(max_size=40), st.integers(0, 300).map(lambda n: b'\xfe' * n))
    exts = st.builds(ref.RExt, st.integers(-128, 127),
                     st.one_of(st.binary(max_size=20), st.sampled_from([1, 2, 4, 8, 16, 17, 255, 256]).map(lambda n: b'e' * n)))
    scalars = st.one_of(st.none(), st.booleans(), ints, floats, texts, bins, exts)
    key_exts = st.builds(ref.RExt, st.integers(-128, 127), st.binary(max_size=4))
    key_scalars = st.one_of(st.none(), st.booleans(), st.integers(-2 ** 63, 2 ** 64 - 1), st.integers(-5, 40),
                            st.floats(allow_nan=False), st.text(max_size=8), st.binary(max_size=8), key_exts)
    # array keys decode to tuples, at every nesting level: {(1, (2, 3)): ...}
    flat = st.lists(key_scalars, max_size=3).map(tuple)
    nested = st.lists(st.one_of(key_scalars, flat), max_size=3).map(tuple)
    keys = st.one_of(key_scalars, flat, nested, st.lists(nested, min_size=1, max_size=2).map(tuple))

    def extend(children):
        return st.one_of(st.lists(children, max_size=6),
                         st.lists(children, min_size=14, max_size=18),
                         st.dictionaries(keys, children, max_size=5),
                         st.dictionaries(st.integers(0, 40), children, min_size=15, max_size=17))
    return st.recursive(scalars, extend, max_leaves=25)


def nontrivial_value(v, enc):
    if depth(v) >= 2:
        return True
    if isinstance(v, int) and not isinstance(v, bool):
        return any(abs(abs(v) - b) <= 3 for b in INT_BOUNDS)
    if isinstance(v, (str, bytes)):
        n = len(v.encode('utf-8')) if isinstance(v, str) else len(v)
        return any(abs(n - b) <= 2 for b in LEN_BOUNDS)
    if isinstance(v, (list, dict)):
        return len(v) >= 14
    if isinstance(v, ref.RExt):
        return v.type < 0 or len(v.data) in (1, 2, 4, 8, 16)
    return False


def w_values(job):
    import random
    from hypothesis import strategies as st
    idx, seed, n = job
    sh = Shard()
    rnd = random.Random(seed)

    def prop(v):
        enc, bad = check_value(v, rnd)
        sh.case(enc if enc is not None else repr(v), nontrivial_value(v, enc),
                {'value': repr(v)[:200], 'encoding': (enc or b'')[:40].hex()})
        sh.count('depth>=2' if depth(v) >= 2 else 'depth<2')
        if bad:
            raise Found('value:' + bad[0], {'kind': 'value', 'value': repr(v)}, bad[1])
        if isinstance(v, (list, dict)):
            # the same container OBJECT occurring several times in one value (no cycle): [row, row], one dict under two keys
            bad = check_shared(v)
            sh.count('shared-container-values')
            if bad:
                raise Found('value:' + bad[0], {'kind': 'shared', 'value': repr(v)}, bad[1])
    core.hyp_search(sh, prop, value_strategy(), seed, n)

    def prop2(args):
        v, choices = args
        data, bad = check_stream(v, choices)
        minimal = ref.encode(v)
        sh.case(data, data != minimal, {'value': repr(v)[:120], 'stream': data[:40].hex(), 'minimal_len': len(minimal), 'len': len(data)})
        sh.count('stream-nonminimal' if data != minimal else 'stream-minimal')
        if bad:
            raise Found('anyfmt:' + bad[0], {'kind': 'anyfmt', 'value': repr(v), 'choices': list(choices)}, bad[1])
    core.hyp_search(sh, prop2, st.tuples(value_strategy(), st.lists(st.integers(0, 7), max_size=30)),
                    seed + 1, n)

    def prop3(data):
        cls, bad = check_bytes(data)
        sh.case(data, cls == 'valid' and len(data) > 2, {'bytes': data[:40].hex(), 'class': cls})
        sh.count('bytes-class:' + cls)
        if bad:
            raise Found('bytes:' + bad[0], {'kind': 'bytes', 'data': data}, bad[1])
    # bytes biased towards headers: structured prefix + random tail, and mutated valid encodings
    heads = st.sampled_from([bytes([b]) for b in range(0x80, 0x100)])
    structured = st.builds(lambda h, t: b''.join(h) + t, st.lists(heads, min_size=1, max_size=4), st.binary(max_size=24))
    mutated = st.builds(_mutate, value_strategy(), st.integers(0, 10 ** 6), st.integers(0, 255), st.integers(0, 2))
    core.hyp_search(sh, prop3, st.one_of(st.binary(max_size=32), structured, mutated), seed + 2, n)
    return sh.result()


def _mutate(v, pos, byte, op):
    data = bytearray(ref.encode(v))
    if not data:
        return bytes(data)
    pos %= len(data)
    if op == 0:
        data[pos] = byte
    elif op == 1:
        del data[pos]
    else:
        data.insert(pos, byte)
    return bytes(data)


# ---------------------------------------------------------------------------
# atheris tier (thorough only)

ATHERIS_DRIVER = r'''
import sys, os
sys.path.insert(0, %(deps)r); sys.path.insert(0, %(verif)r); sys.path.insert(0, %(repo)r)
import atheris
with atheris.instrument_imports(include=['supp.umsgpack']):
    from supp import umsgpack
from checks import c14
def target(data):
    cls, bad = c14.check_bytes(data)
    if bad:
        raise RuntimeError('C14VIOLATION ' + bad[0] + ' :: ' + bad[1])
atheris.Setup(sys.argv, target)
atheris.Fuzz()
'''


def run_atheris(run, seconds):
    import subprocess
    import tempfile
    import shutil
    deps = os.path.join(core.VERIF, '.deps')
    if not os.path.isdir(os.path.join(deps, 'atheris')):
        subprocess.run([sys.executable, '-m', 'pip', 'install', '-q', '--no-index', '--find-links',
                        '/opt/veriftools/wheels', '--target', deps, 'atheris'],
                       stdout=subprocess.DEVNULL, stderr=subprocess.DEVNULL)
    if not os.path.isdir(os.path.join(deps, 'atheris')):
        run.notes.append('atheris unavailable: byte tier covered by Hypothesis only')
        return
    tmp = tempfile.mkdtemp(prefix='c14fuzz')
    try:
        drv = os.path.join(tmp, 'drv.py')
        with open(drv, 'w') as f:
            f.write(ATHERIS_DRIVER % {'deps': deps, 'verif': core.VERIF, 'repo': core.REPO})
        procs = []
        for i in range(8):
            corpus = os.path.join(tmp, 'corpus%d' % i)
            os.makedirs(corpus)
            if i % 2:     # half of the campaigns start from small valid inputs, half from nothing
                for k, v in enumerate([[1, 'a', None], {'k': [1.5, b'x']}, 'x' * 40, [2 ** 40, -2 ** 40]]):
                    with open(os.path.join(corpus, 'seed%d' % k), 'wb') as f:
                        f.write(ref.encode(v))
            procs.append(subprocess.Popen(
                [sys.executable, drv, corpus, '-max_total_time=%d' % seconds, '-seed=%d' % (core.derive_seed(run.seed, 'ath', i) % 2 ** 31 or 1),
                 '-max_len=64', '-artifact_prefix=%s/crash%d-' % (tmp, i), '-print_final_stats=1'],
                stdout=open(os.path.join(tmp, 'fuzz%d.log' % i), 'wb'), stderr=subprocess.STDOUT, cwd=tmp, env=dict(os.environ, PYTHONPATH=deps)))
        execs = 0
        for i, p in enumerate(procs):
            # (output goes to a file: a pipe nobody drains stalls the campaign once it holds 64 KiB)
            p.wait()
            with open(os.path.join(tmp, 'fuzz%d.log' % i), 'rb') as f_:
                out = f_.read().decode('utf-8', 'replace')
            for line in out.splitlines():
                if 'stat::number_of_executed_units' in line:
                    execs += int(line.split()[-1])
            if 'C14VIOLATION' in out:
                for fn in os.listdir(tmp):
                    if fn.startswith('crash%d-' % i):
                        data = open(os.path.join(tmp, fn), 'rb').read()
                        cls, bad = check_bytes(data)
                        if bad:
                            run.violations.append({'signature': 'bytes:' + bad[0], 'case': core.jsonable({'kind': 'bytes', 'data': data}),
                                                   'detail': 'atheris: ' + bad[1]})
            elif p.returncode not in (0,):
                run.notes.append('atheris worker %d exit %s: %s' % (i, p.returncode, out[-300:]))
        run.extra['atheris_executions'] = execs
        run.evaluations += execs
    finally:
        shutil.rmtree(tmp, ignore_errors=True)


# ---------------------------------------------------------------------------

def run(run):
    try:
        ref.selftest()
    except AssertionError as e:
        raise core.HarnessError('reference codec self-test failed: %r' % (e,))
    parts = ['ints', 'firstbytes'] + ['len-' + f for f in ('str', 'bin', 'ext')]
    for f in ('array', 'map'):
        parts.append('len-%s@small' % f)
        parts.extend('len-%s@%d' % (f, L) for L in boundary_lengths() if L >= 60000)
    run.pmap(w_boundary, [(p, core.derive_seed(run.seed, p)) for p in parts])
    run.extra['exhaustive'] = True
    run.extra['exhaustive_scope'] = 'boundary sets only (ints, lengths, first bytes, cut points <= 4096 bytes); the random part is sampled'
    n = run.pick(250, 6000)
    shards = run.pick(12, 16)
    run.pmap(w_values, [(i, core.derive_seed(run.seed, 'values', i), n) for i in range(shards)])
    if not run.quick:
        run_atheris(run, int(os.environ.get('VERIF_FUZZ_SECONDS', '240')))


def replay(case):
    import random
    rnd = random.Random(0)
    out = []
    kind = case.get('kind')
    if kind == 'bytes':
        cls, bad = check_bytes(case['data'])
        if bad:
            out.append({'signature': 'bytes:' + bad[0], 'case': case, 'detail': bad[1]})
        elif cls == 'insufficient':
            pass
    elif kind == 'shared':
        v = eval(case['value'], {'RExt': ref.RExt, 'nan': float('nan'), 'inf': float('inf')})
        bad = check_shared(v)
        if bad:
            out.append({'signature': 'value:' + bad[0], 'case': case, 'detail': bad[1]})
    elif kind in ('value', 'anyfmt'):
        v = eval(case['value'], {'RExt': ref.RExt, 'nan': float('nan'), 'inf': float('inf')})
        if kind == 'value':
            u = um()
            if isinstance(v, int) and not isinstance(v, bool) and not (-2 ** 63 <= v < 2 ** 64):
                try:
                    u.dumps(v)
                    out.append({'signature': 'int-out-of-range-wrapped', 'case': case, 'detail': ''})
                except u.UnsupportedTypeException:
                    pass
                except Exception as e:
                    out.append({'signature': 'int-out-of-range-wrong-exception:' + type(e).__name__, 'case': case, 'detail': repr(e)})
            else:
                enc, bad = check_value(v, rnd)
                if bad:
                    out.append({'signature': 'value:' + bad[0], 'case': case, 'detail': bad[1]})
        else:
            data, bad = check_stream(v, case['choices'])
            if bad:
                out.append({'signature': 'anyfmt:' + bad[0], 'case': case, 'detail': bad[1]})
    elif kind in ('lenvalue', 'bytes-head'):
        res = w_boundary(('len-%s@%s' % (case['family'], 'small' if case['length'] < 60000 else case['length']), 0))
        for v in res['violations']:
            if v['case'].get('length') == case['length']:
                out.append(v)
    return out


KNOWN = {}
