"""C08 - the API is total: every text and cursor position gets an answer.

Streams: (1) real files x seeded cursor positions (names, attributes, import lines, builtins, random),
(2) typing-state mutations of them, (3) generated programs at every kind of position, (4) generated cyclic
cases (assignment cycles, inheritance cycles, mutual recursion, import cycles between fixture modules),
(5) thorough only: coverage-guided atheris over token-built sources.
Oracle: lint returns a list with exactly one E01 (CPython's msg/lineno/offset) iff ast.parse fails;
assist/location return well-formed values or raise SyntaxError only when the cursor-marked text does not parse.
Failures are bucketed by (entry point, exception class, innermost supp function).
"""
import ast
import json
import os
import random
import signal
import sys
import traceback

from vlib import core, corpus, suppview
from vlib.core import Shard, Found

PROPERTY = 'C08'
LEVEL = 'exploration'
RULE = ('real files (stdlib sample + repository) at seeded cursor positions (ends/middles of names and attributes, every column '
        'of some import lines, builtins, after dots, random), typing-state mutations (line truncated at cursor, trailing dot, '
        'deleted line, truncated file, return/yield/break moved out of their construct, half-typed imports), generated '
        'programs, generated cyclic cases; lint/assist/location each checked against ast.parse on the (marked) text. '
        'Non-trivial: a mutation, a cursor off any identifier, an import line, or a cyclic case - i.e. anything but a verbatim '
        'file at a name position; distinct by (text hash, position, entry point).')
ASSUMPTIONS = ['AST depth <= 60 is the domain; a RecursionError on a deeper input is skipped and counted',
               'a call exceeding 60 s is inconclusive (counted), never a violation',
               'the cursor-marked text is rebuilt by the harness: mark spliced at (line, col), lines joined by newline']

MARK = '__supp_mark__'
CALL_TIMEOUT = 60


class Timeout(Exception):
    pass


def _alarm(sig, frm):
    raise Timeout()


def marked_text(src, pos):
    ln, col = pos
    lines = core.plines(src) or ['']
    if ln > len(lines):
        lines.append('')
    line = lines[ln - 1]
    lines[ln - 1] = line[:col] + MARK + line[col:]
    return '\n'.join(lines)


def parses(text, filename='<c08>'):
    """-> ('ok', None) | ('syntax', exc) | ('other', exc)"""
    try:
        ast.parse(text, filename or '<string>')
        return 'ok', None
    except SyntaxError as e:
        return 'syntax', e
    except (ValueError, RecursionError, MemoryError) as e:
        return 'other', e


def ast_depth(text):
    try:
        tree = ast.parse(text)
    except Exception:
        return 0
    best = 0
    stack = [(tree, 1)]
    while stack:
        node, d = stack.pop()
        best = max(best, d)
        for c in ast.iter_child_nodes(node):
            stack.append((c, d + 1))
    return best


def supp_frame(tb):
    """innermost frame inside the repository's supp package: 'module.function'"""
    root = os.path.join(core.REPO, 'supp') + os.sep
    best = None
    for fs in traceback.extract_tb(tb):
        if fs.filename.startswith(root):
            best = '%s.%s' % (os.path.basename(fs.filename)[:-3], fs.name)
    return best or 'outside-supp'


def well_formed_assist(r):
    if not (isinstance(r, tuple) and len(r) == 2):
        return 'not a pair: %r' % (type(r),)
    prefix, props = r
    if not isinstance(prefix, str):
        return 'prefix is %r' % type(prefix)
    if not isinstance(props, list) or not all(isinstance(p, str) for p in props):
        return 'proposals not a list of str'
    if props != sorted(props):
        return 'proposals not sorted'
    return None


def well_formed_location(r):
    if not isinstance(r, list):
        return 'not a list'
    for e in r:
        for d in (e if isinstance(e, list) else [e]):
            if not (isinstance(d, dict) and set(d) == {'loc', 'file'}):
                return 'entry %r' % (d,)
            loc = d['loc']
            if not (isinstance(loc, (tuple, list)) and len(loc) == 2 and all(isinstance(x, int) for x in loc)):
                return 'loc %r' % (loc,)
            if not (d['file'] is None or isinstance(d['file'], str)):
                return 'file %r' % (d['file'],)
    return None


def call_guarded(fn):
    old = signal.signal(signal.SIGALRM, _alarm)
    signal.alarm(CALL_TIMEOUT)
    try:
        return 'ok', fn()
    except Timeout:
        return 'timeout', None
    except BaseException as e:
        return 'exc', (e, sys.exc_info()[2])
    finally:
        signal.alarm(0)
        signal.signal(signal.SIGALRM, old)


def check_lint(project, src, filename):
    """-> (problem or None, class)"""
    from supp.linter import lint
    kind, exc = parses(src, filename)
    if kind == 'other':
        return None, 'out-of-domain'
    def call():
        with project.check_changes():       # every request of the server runs inside this context
            return lint(project, src, filename)
    st, res = call_guarded(call)
    if st == 'timeout':
        return None, 'timeout'
    if st == 'exc':
        e, tb = res
        if isinstance(e, RecursionError) and ast_depth(src) > 60:
            return None, 'too-deep'
        return ('lint:%s:%s' % (type(e).__name__, supp_frame(tb)), 'lint raised %r' % (e,)), 'exc'
    if not isinstance(res, list):
        return ('lint:not-a-list', repr(type(res))), 'bad'
    e01 = [r for r in res if r[0] == 'E01']
    if kind == 'syntax':
        if len(e01) != 1 or len(res) != 1:
            return ('lint:E01-missing', 'text does not parse (%s) but lint returned %r' % (exc.msg, res[:3])), 'bad'
        r = e01[0]
        if (r[1], r[2], r[3]) != (exc.msg, exc.lineno, exc.offset):
            return ('lint:E01-wrong-payload', 'lint %r, CPython (%r, %r, %r)' % (r[:4], exc.msg, exc.lineno, exc.offset)), 'bad'
        return None, 'syntax-error-reported'
    if e01:
        return ('lint:E01-on-valid-text', repr(e01)), 'bad'
    for r in res:
        if not (isinstance(r, tuple) and len(r) >= 4 and isinstance(r[0], str) and isinstance(r[1], str)
                and isinstance(r[2], int) and isinstance(r[3], int)):
            return ('lint:malformed-diagnostic', repr(r[:4])), 'bad'
    return None, 'ok'


def check_cursor(project, which, src, pos, filename):
    from supp import assistant
    fn = assistant.assist if which == 'assist' else assistant.location
    mkind, mexc = parses(marked_text(src, pos), filename)
    if mkind == 'other':
        return None, 'out-of-domain'
    def call():
        with project.check_changes():
            return fn(project, src, pos, filename)
    st, res = call_guarded(call)
    if st == 'timeout':
        return None, 'timeout'
    if st == 'exc':
        e, tb = res
        if isinstance(e, SyntaxError):
            if mkind == 'syntax':
                return None, 'syntax-error-raised'
            return ('%s:SyntaxError-on-parsable-marked-text' % which, 'raised %r' % (e,)), 'bad'
        if isinstance(e, RecursionError) and ast_depth(marked_text(src, pos)) > 60:
            return None, 'too-deep'
        return ('%s:%s:%s' % (which, type(e).__name__, supp_frame(tb)), '%s raised %r' % (which, e)), 'exc'
    bad = well_formed_assist(res) if which == 'assist' else well_formed_location(res)
    if bad:
        return ('%s:malformed-result' % which, bad), 'bad'
    return None, 'ok'


# ---------------------------------------------------------------------------
# cursor positions and mutations

BUILTIN_SAMPLE = ('len', 'print', 'str', 'dict', 'object', 'ValueError', 'isinstance', 'super', 'open', '__file__', '__name__')


def positions_for(src, tree, rnd, n):
    """(pos, class) pairs: class tells which part of the domain the position exercises."""
    lines = core.plines(src) or ['']
    out = []
    names, attrs, imports, builtins_ = [], [], [], []
    if tree is not None:
        for node in ast.walk(tree):
            if isinstance(node, ast.Name):
                tgt = builtins_ if node.id in BUILTIN_SAMPLE else names
                tgt.append((node.lineno, node.col_offset, len(node.id)))
            elif isinstance(node, ast.Attribute) and node.end_lineno == node.lineno:
                attrs.append((node.end_lineno, node.end_col_offset - len(node.attr), len(node.attr)))
            elif isinstance(node, (ast.Import, ast.ImportFrom)):
                imports.append(node)
    rnd.shuffle(names)
    rnd.shuffle(attrs)
    rnd.shuffle(imports)
    rnd.shuffle(builtins_)
    for l, c, k in names[:max(2, n // 4)]:
        out.append(((l, c + k), 'name-end'))
        if k > 1:
            out.append(((l, c + rnd.randrange(1, k)), 'name-middle'))
    for l, c, k in attrs[:max(2, n // 4)]:
        out.append(((l, c + k), 'attr-end'))
        out.append(((l, c), 'after-dot'))
        if k > 1:
            out.append(((l, c + rnd.randrange(1, k)), 'attr-middle'))
    for l, c, k in builtins_[:4]:
        out.append(((l, c + k), 'builtin'))
    for node in imports[:3]:
        for ln in range(node.lineno, min(node.end_lineno, node.lineno + 2) + 1):
            line = lines[ln - 1] if ln <= len(lines) else ''
            cols = list(range(len(line) + 1))
            if len(cols) > 24:
                cols = sorted(rnd.sample(cols, 24))
            for col in cols:
                out.append(((ln, col), 'import-line'))
    for _ in range(max(2, n // 6)):
        ln = rnd.randrange(1, len(lines) + 1)
        out.append(((ln, rnd.randrange(0, len(lines[ln - 1]) + 1)), 'random'))
    out.append(((len(lines), len(lines[-1])), 'end-of-text'))
    out.append(((1, 0), 'start-of-text'))
    if src.endswith('\n'):
        out.append(((len(lines) + 1, 0), 'new-last-line'))
    return out


def mutations(src, rnd, k):
    """typing-state mutations: (text, cursor, label)"""
    lines = core.plines(src)
    out = []
    if not lines:
        return out
    for _ in range(k):
        kind = rnd.choice(['truncate-line', 'trailing-dot', 'delete-line', 'truncate-file', 'dedent-flow', 'half-import', 'open-bracket', 'half-def',
                           'line-separators', 'truncate-after-line'])
        ln = rnd.randrange(1, len(lines) + 1)
        line = lines[ln - 1]
        if kind == 'truncate-line':
            col = rnd.randrange(0, len(line) + 1)
            new = lines[:ln - 1] + [line[:col]] + lines[ln:]
            out.append(('\n'.join(new) + '\n', (ln, col), kind))
        elif kind == 'trailing-dot':
            code = line.split('#')[0].rstrip()
            if not code or not (code[-1].isalnum() or code[-1] in '_)]'):
                continue
            new = lines[:ln - 1] + [code + '.'] + lines[ln:]
            out.append(('\n'.join(new) + '\n', (ln, len(code) + 1), kind))
        elif kind == 'delete-line':
            new = lines[:ln - 1] + lines[ln:]
            if not new:
                continue
            l2 = min(ln, len(new))
            out.append(('\n'.join(new) + '\n', (l2, rnd.randrange(0, len(new[l2 - 1]) + 1)), kind))
        elif kind == 'truncate-file':
            col = rnd.randrange(0, len(line) + 1)
            new = lines[:ln - 1] + [line[:col]]
            out.append(('\n'.join(new), (ln, col), kind))
        elif kind == 'truncate-after-line':
            # the file cut at a line boundary: errors CPython detects at end of input (missing block after a header, open bracket,
            # unterminated triple-quoted string) depend on how exactly the text ends
            blanks = [i + 1 for i, l in enumerate(lines) if not l.strip() and i > 0 and (lines[i - 1].rstrip().endswith((':', '(', '[', ',', '"""', "'''")) or rnd.random() < 0.2)]
            if blanks and rnd.random() < 0.6:
                ln = rnd.choice(blanks)
            tail = rnd.choice(['\n', '\n', '\n\n', '\n   \n', '', '\r\n', '\n\x0c\n', '\n# end', '\\\n'])
            new = lines[:ln]
            out.append(('\n'.join(new) + tail, (ln, len(new[-1])), kind))
        elif kind == 'dedent-flow':
            cands = [i for i, l in enumerate(lines) if l.strip().split(' ')[0].rstrip(':') in ('return', 'yield', 'break', 'continue', 'await', 'nonlocal') and l[:1] in ' \t']
            if not cands:
                continue
            i = rnd.choice(cands)
            new = lines[:i] + [lines[i].lstrip()] + lines[i + 1:]
            out.append(('\n'.join(new) + '\n', (i + 1, len(new[i])), kind))
        elif kind == 'half-import':
            stub = rnd.choice(['import o', 'import ', 'from nosuch import y', 'from os import ', 'from os import pa', 'from . import x',
                               'from .. import ', 'import os.', 'from os.', 'from os.pa', 'import nosuch.sub', 'from nosuch.', 'import os as',
                               'from os import (path,', 'from', 'from .', 'from ...x import y', 'import json, o'])
            new = lines[:ln - 1] + [stub] + lines[ln - 1:]
            out.append(('\n'.join(new) + '\n', (ln, len(stub)), kind))
        elif kind == 'open-bracket':
            stub = rnd.choice(['foo(', 'x = [', 'd = {"a": ', 'print(x.', 'x = (1,', 'f(a, b=', 'x[', 'lambda ', 'lambda x: x.', 'with open(f) as ',
                               'for self.x in y:', 'for x in ', 'with a as b.c:', '[z for y.z in q]', 'class A(', 'def f(', 'def f(a, *',
                               'x = yield', 'return 1', 'return x.', 'global ', 'del x.', 'assert x.', 'raise X.', 'x: int = y.', '@dec.', 'async def f(): await x.',
                               'try:', 'except X as ', 'while x.', 'if x.', 'elif y', 'else:', 'match x:', 'case ', 'x = 1 if y else z.', 'x = y = z.', 'locals().', 'locals = 1'])
            indent = line[:len(line) - len(line.lstrip())]
            new = lines[:ln - 1] + [indent + stub] + lines[ln - 1:]
            out.append(('\n'.join(new) + '\n', (ln, len(indent + stub)), kind))
        elif kind == 'line-separators':
            # characters str.splitlines() treats as line breaks but the parser does not (form feed as a page break on its own
            # line or inside a string literal / comment), and CRLF line ends: line numbers must stay the parser's
            how = rnd.choice(['formfeed-line', 'formfeed-in-comment', 'crlf', 'formfeed-in-string', 'lone-cr', 'cr-only'])
            if how == 'formfeed-line':
                new = lines[:ln - 1] + ['\x0c'] + lines[ln - 1:]
                text = '\n'.join(new) + '\n'
            elif how == 'formfeed-in-comment':
                new = lines[:ln - 1] + ['# page\x0cbreak \x1c \x85'] + lines[ln - 1:]
                text = '\n'.join(new) + '\n'
            elif how == 'formfeed-in-string':
                new = ["_ff = 'a\x0cb'"] + lines
                text = '\n'.join(new) + '\n'
            elif how == 'lone-cr':
                # a lone carriage return ends a line for the parser (a stray \r, \r\r\n)
                new = lines
                text = '\n'.join(new[:ln]) + '\r' + '\n'.join(new[ln:]) + '\n' if ln < len(new) else '\n'.join(new) + '\r'
            elif how == 'cr-only':
                new = lines
                text = '\r'.join(new) + '\r'
            else:
                new = lines
                text = '\r\n'.join(new) + '\r\n'
            l2 = rnd.randrange(1, len(new) + 1)
            out.append((text, (l2, rnd.randrange(0, len(new[l2 - 1]) + 1)), kind))
            l3 = min(len(new), ln + 1)
            out.append((text, (l3, len(new[l3 - 1])), kind))
        elif kind == 'half-def':
            stub = rnd.choice(['def ', 'class ', 'def f(self', 'class A(B', 'def f(a=b.', '@'])
            new = lines[:ln - 1] + [stub] + lines[ln - 1:]
            out.append(('\n'.join(new) + '\n', (ln, len(stub)), kind))
    return out


# ---------------------------------------------------------------------------

def run_text(sh, project, src, filename, pos_list, label, verbatim):
    """lint + assist + location on one text at several positions; records cases and violations."""
    prob, cls = check_lint(project, src, filename)
    sh.case((src, 'lint'), not verbatim, {'entry': 'lint', 'text_head': src[:80], 'label': label} if not verbatim else None)
    sh.count('lint:' + cls)
    if prob:
        _report(sh, prob, {'entry': 'lint', 'src': src, 'filename': filename})
    for pos, pclass in pos_list:
        for which in ('assist', 'location'):
            prob, cls = check_cursor(project, which, src, pos, filename)
            nontrivial = (not verbatim) or pclass in ('import-line', 'random', 'end-of-text', 'start-of-text', 'new-last-line', 'after-dot', 'name-middle', 'attr-middle', 'builtin')
            sh.case((core.digest(src), pos, which), nontrivial,
                    {'entry': which, 'pos': pos, 'class': pclass, 'label': label, 'line': (core.plines(src) or [''])[min(pos[0], len(core.plines(src) or [''])) - 1][:80]})
            sh.count('%s:%s' % (which, cls))
            sh.count('pos:' + pclass)
            if prob:
                _report(sh, prob, {'entry': which, 'src': src, 'pos': list(pos), 'filename': filename})


def _report(sh, prob, case):
    sig, detail = prob
    d = sh.__dict__
    seen = d.setdefault('seen_sigs', {})
    best = d.setdefault('best', {})
    seen[sig] = seen.get(sig, 0) + 1
    fid = classify_known(sig)
    if fid:
        sh.known_hit(fid, case)
        return
    if sig not in best or len(case.get('src', '')) < len(best[sig][0].get('src', '')):
        best[sig] = (case, detail)


def flush(sh):
    """minimise the smallest witness of each bucket (line ddmin preserving the signature) and record it"""
    from supp.project import Project
    for sig, (case, detail) in sorted(sh.__dict__.get('best', {}).items()):
        def still(src, case=case, sig=sig):
            vs = replay(dict(case, src=src))
            return any(v['signature'] == sig for v in vs)
        src = case['src']
        if len(core.plines(src)) > 1 and len(src) < 200000:
            try:
                if case['entry'] == 'lint':
                    src = core.minimise_lines(src, still, max_steps=150)
                    case = dict(case, src=src)
            except Exception:
                pass
        sh.violation(sig, case, detail + ' [bucket hits in this shard: %d]' % sh.seen_sigs.get(sig, 1))


def w_files(job):
    files, seed, npos, nmut = job
    sh = Shard()
    rnd = random.Random(seed)
    for path in files:
        src = corpus.read(path)
        if src is None:
            sh.count('file-skipped:undecodable')
            continue
        try:
            tree = ast.parse(src, path)
        except (SyntaxError, ValueError, RecursionError):
            tree = None
        project = suppview.project()
        sh.count('files')
        run_text(sh, project, src, path, positions_for(src, tree, rnd, npos), 'verbatim', True)
        for text, pos, label in mutations(src, rnd, nmut):
            sh.count('mutation:' + label)
            extra = [(pos, 'mutation-cursor')]
            lines = core.plines(text) or ['']
            if pos[0] <= len(lines) and pos[1] > 0:
                extra.append(((pos[0], pos[1] - 1), 'mutation-cursor'))
            run_text(sh, project, text, path, extra, label, False)
    flush(sh)
    return sh.result()


CYCLIC_TEMPLATES = [
    'a = b\nb = a\na.x\nb',
    'a = a\na.x',
    'class A(B): pass\nclass B(A): pass\nA().x\nB.y',
    'class A(A): pass\nA().x',
    'def f(): return g()\ndef g(): return f()\nf().x\ng',
    'def f(): return f\nf()().x',
    'def f(): return f()\nx = f()\nx.y',
    'from cyc_a import *\nca\ncb.x',
    'import cyc_a\ncyc_a.cb.x',
    'from cyc_c import c_alias\nc_alias.x',
    'from cyc_d import d_name as q\nq.x',
    'import cyc_c, cyc_d\ncyc_c.c_alias.z\ncyc_d.d_name',
    'class A:\n    def m(self):\n        self.a = self.b\n        self.b = self.a\n        return self\nA().m().a.x\nA().b',
    'class A:\n    def m(self):\n        self.o = B()\n        return self.o\nclass B(A):\n    def n(self):\n        self.back = A().m()\n        return self.back.n()\nB().n().o.back.x',
    'x = [x for x in x]\nx.y',
    'x = lambda: x\nx().y',
    'class A:\n    a = A\nA.a.a.a',
    'import os as os\nos = os\nos.path.x',
    'def f(a=f): return a\nf().x',
    'class M(type): pass\nclass A(metaclass=A): pass\nA.x',
    'a = b = c = a\nc.x',
    'for i in i:\n    i = i\ni.x',
    'with a as a:\n    a.x',
    'try:\n    e = e\nexcept e as e:\n    e.x',
    'def f():\n    global f\n    f = f()\n    return f\nf().x',
    'class A:\n    @property\n    def p(self): return self.p\nA().p.x',
    'for _ in x:\n    class A(B): pass\n    class B(A): pass\n    A().x\nB.y',
    'def f():\n    class A(B): pass\n    return A\nclass B(f()): pass\nB().y\nf().z',
    'if c:\n    class A(object): pass\nelse:\n    class A(dict): pass\nclass B(A): pass\nB().x',
    'import pyexpat.errors\npyexpat\nx = pyexpat\nx.errors\npyexpat.errors.messages',
    'import xml.parsers.expat.model, pyexpat.model\npyexpat.model\nxml.parsers\nimport os.path, math\nmath\nos',
    'import cyc_e\ncyc_e.e_other.FromF.f_attr.e_own.x\ncyc_e.cyc_f.cyc_e.e_own',
    'from cyc_f import FromF\nFromF().f_attr.cyc_f.f_own',
    'from fx_bom import *\nbom_value\nBomClass.battr',
    'import fx_bom\nfx_bom.BomClass().battr\nfx_bom.bom_value',
    'import cyc_e, cyc_f\nclass K(cyc_f.FromF):\n    def m(self):\n        self.q = cyc_e.e_other.FromF()\n        return self.q.f_attr\nK().m().cyc_f.x',
    'class A:\n    def __get__(self, *a): return A()\n    @A\n    def q(self): return self.q\nA().q.x',
]


NOFILE_TEMPLATES = ['from .', 'from . import x\nx.y', 'from .. import y\ny', 'from .m import *\nq', 'from ...a.b import c as d\nd.e',
                    'import os\nos.path', 'x = 1\nx.real', 'import fx_mod\nfx_mod.fa', 'class A:\n    def m(self):\n        self.a = 1\nA().a']


def w_cyclic(job):
    from hypothesis import strategies as st
    idx, seed, n = job
    sh = Shard()
    project = suppview.project()
    fn = suppview.filename_for(False)
    rnd = random.Random(seed)
    for t in CYCLIC_TEMPLATES:
        src = t + '\n'
        tree = ast.parse(src)
        pl = []
        lines = core.plines(src)
        for ln, line in enumerate(lines, 1):
            for col in range(len(line) + 1):
                pl.append(((ln, col), 'cyclic'))
        for rnd_ in range(3):
            run_text(sh, project, src, fn, pl if rnd_ == 0 else pl[::7], 'cyclic-template', False)
    # a buffer that has no file yet (filename None): every template with a relative or absolute import and plain code
    if idx == 0:
        for t in NOFILE_TEMPLATES:
            src = t + '\n'
            pl = [((ln, col), 'no-filename') for ln, line in enumerate(core.plines(src), 1) for col in range(len(line) + 1)]
            run_text(sh, project, src, None, pl, 'no-filename', False)
    # generated assignment / inheritance / call graphs over a tiny name pool
    names = ['a', 'b', 'c']

    def prop(spec):
        lines = []
        for kind, x, y in spec:
            if kind == 0:
                lines.append('%s = %s' % (x, y))
            elif kind == 1:
                lines.append('class %s(%s): pass' % (x.upper(), y.upper()))
            elif kind == 2:
                lines.append('def %s(): return %s()' % (x, y))
            elif kind == 3:
                lines.append('%s = %s()' % (x, y.upper()))
            elif kind == 4:
                lines.append('class %s:\n    def m(self):\n        self.%s = %s()\n        return self.%s' % (x.upper(), y, y.upper(), x))
            else:
                lines.append('%s = %s.%s' % (x, y, x))
        lines.append('%s.x' % spec[0][1])
        lines.append('%s().m().y' % spec[0][1].upper())
        src = '\n'.join(lines) + '\n'
        all_lines = core.plines(src)
        pl = [((len(all_lines) - 1, len(all_lines[-2])), 'cyclic'), ((len(all_lines), len(all_lines[-1])), 'cyclic'),
              ((len(all_lines), len(all_lines[-1]) - 2), 'cyclic')]
        before = dict(sh.__dict__.get('seen_sigs', {}))
        run_text(sh, project, src, fn, pl, 'cyclic-generated', False)
    strat = st.lists(st.tuples(st.integers(0, 5), st.sampled_from(names), st.sampled_from(names)), min_size=2, max_size=6)
    core.hyp_search(sh, prop, strat, seed, n, shrink=False, max_rounds=1)
    flush(sh)
    return sh.result()


SEQ_BODIES = {'if': 'if x:\n    y%d = x\n', 'if-else': 'if x:\n    y%d = x\nelse:\n    y%d = 0\n', 'for': 'for k%d in x:\n    y%d = k%d\n',
              'try': 'try:\n    y%d = x\nexcept E:\n    pass\n', 'try-finally': 'try:\n    y%d = x\nfinally:\n    z%d = 1\n', 'with': 'with x as y%d:\n    pass\n',
              'while': 'while x:\n    y%d = x\n', 'def': 'def f%d(a):\n    return a\n', 'assign': 'y%d = [x for x in (1, 2)]\n'}


def w_sequences(job):
    """long SEQUENCES (not nesting) of statements in one body: statement count is not bounded by the recursion limit"""
    seed, sizes = job
    sh = Shard()
    rnd = random.Random(seed)
    for n in sizes:
        kinds = sorted(SEQ_BODIES)
        for variant in range(5):
            pick = [rnd.choice(kinds)] * n if variant == 0 else [rnd.choice(kinds) for _ in range(n)]
            body = ''.join(SEQ_BODIES[k].replace('%d', str(i)) for i, k in enumerate(pick))
            if variant == 2:
                body = 'def host(x):\n' + ''.join('    ' + l + '\n' for l in body.split('\n') if l) + '    print(x, y0)\n'
                src = 'x = 1\n' + body + 'host(x)\n'
            elif variant >= 3:
                # the long sequence is the body of a loop (its regions are resolved a second time through the back edge)
                head = 'for q in x:\n' if variant == 3 else 'while x:\n'
                body = head + ''.join('    ' + l + '\n' for l in body.split('\n') if l) + '    print(x, y0)\n'
                src = 'x = 1\n' + body + 'print(x)\n'
            else:
                src = 'x = 1\n' + body + 'print(x, y0)\n'
            lines = core.plines(src)
            last = len(lines) - (1 if variant >= 2 else 0)
            pl = [((last, lines[last - 1].index('x') + 1), 'after-long-sequence'), ((last, len(lines[last - 1]) - 1), 'after-long-sequence'),
                  ((len(lines) // 2, len(lines[len(lines) // 2 - 1])), 'inside-long-sequence')]
            sh.count('statement-sequences')
            run_text(sh, suppview.project(), src, suppview.filename_for(False), pl, 'sequence-of-%d-statements' % n, False)
    flush(sh)
    return sh.result()


def hier_requests(h):
    """completion / definition requests on every class of a C06 hierarchy, from a probe buffer and from inside the class' file"""
    from . import c06
    files = c06.render(h)
    reqs = []
    for ci, c in enumerate(h['classes']):
        mod = c06.MODS[c['mod']]
        imp, cexpr = c06.ref_from(None, mod, c['name'], h['probe_forms'][ci])
        attr = c['members'][0]['name']
        for expr in (cexpr, cexpr + '()'):
            src = imp + '\n' + expr + '.'
            reqs.append(('assist', src, (2, len(expr) + 1), 'probe.py'))
            src = imp + '\n' + expr + '.' + attr
            reqs.append(('location', src, (2, len(expr) + 1 + len(attr)), 'probe.py'))
        rel = mod.replace('.', '/') + '.py'
        lines = files[rel].split('\n')
        idx = [i for i, l in enumerate(lines) if l == '        self.zz_probe']
        order = [k for k, cc in enumerate(h['classes']) if cc['mod'] == c['mod']]
        li = idx[order.index(ci)]
        l2 = list(lines)
        l2[li] = '        self.'
        reqs.append(('assist', '\n'.join(l2), (li + 1, 13), rel))
    return files, reqs


def run_hier(h, order, sh=None):
    """all requests in the given order on ONE long-lived project (what the server keeps between requests) -> problems"""
    import shutil
    import tempfile
    from supp.project import Project
    files, reqs = hier_requests(h)
    root = tempfile.mkdtemp(prefix='c08h_')
    out = []
    try:
        for rel, src in files.items():
            path = os.path.join(root, rel)
            os.makedirs(os.path.dirname(path), exist_ok=True)
            with open(path, 'w') as f:
                f.write(src)
        project = Project([root])
        seq = [reqs[i % len(reqs)] for i in order]
        for k, (which, src, pos, rel) in enumerate(seq):
            prob, cls = check_cursor(project, which, src, pos, os.path.join(root, rel))
            if sh is not None:
                sh.count('%s:%s' % (which, cls))
            if prob:
                out.append((prob[0].replace(root, '<root>'), 'request %d of %d (%s at %s in %s): %s' % (k + 1, len(seq), which, pos, rel, prob[1].replace(root, '<root>'))))
                break
    finally:
        shutil.rmtree(root, ignore_errors=True)
    return out


def w_hier(job):
    """C06 hierarchies spread over several project modules, a generated ORDER of requests on one long-lived project"""
    from hypothesis import strategies as st
    from . import c06
    idx, seed, n = job
    sh = Shard()

    def prop(args):
        h, order = args
        probs = run_hier(h, order, sh)
        sh.case((core.digest(json.dumps(h, sort_keys=True)), tuple(order)), len(order) >= 3, {'entry': 'hierarchy-history', 'classes': len(h['classes']), 'requests': len(order)})
        sh.count('hierarchy-histories')
        for sig, detail in probs:
            if sig not in sh.excluded:
                raise Found(sig + ':project-history', {'entry': 'hierarchy-history', 'hierarchy': h, 'order': list(order)}, detail)
    strat = st.tuples(c06.hierarchy_strategy(), st.lists(st.integers(0, 40), min_size=1, max_size=14))
    core.hyp_search(sh, prop, strat, seed, n, shrink=False, max_rounds=3)
    return sh.result()


def w_disk_changes(job):
    """project files deleted / renamed between requests on one long-lived project (an ordinary editing step): the calls stay total"""
    import itertools
    import shutil
    import tempfile
    from supp.project import Project
    sh = Shard()
    texts = [('from pkg.mod import f\nf', (2, 1)), ('import pkg\npkg.', (2, 4)), ('from pkg import *\nf', (2, 1)), ('import pkg.mod\npkg.mod.f', (2, 9)),
             ('from pkg import mod as m\nm.', (2, 2)), ('import single\nsingle.v', (2, 8)), ('from pkg.', (1, 9)), ('import ', (1, 7))]
    changes = ['rm-pkg', 'rm-mod', 'rm-single', 'rename-pkg', 'rm-init']
    cases = list(itertools.product(range(len(texts)), changes, range(len(texts))))
    for i, (a, change, b) in enumerate(cases):
        if i % 2 != job:
            continue
        root = tempfile.mkdtemp(prefix='c08d_')
        try:
            os.makedirs(os.path.join(root, 'pkg'))
            for rel, src in (('pkg/__init__.py', 'from .mod import f\n'), ('pkg/mod.py', 'def f():\n    return 1\n'), ('single.py', 'v = 1\n')):
                with open(os.path.join(root, rel), 'w') as f:
                    f.write(src)
            project = Project([root])
            fn = os.path.join(root, 'buffer.py')
            seq = [('before', texts[a])]
            for label, (src, pos) in seq:
                for which in ('assist', 'location'):
                    check_cursor(project, which, src, pos, fn)
                check_lint(project, src + '\n', fn)
            if change == 'rm-pkg':
                shutil.rmtree(os.path.join(root, 'pkg'))
            elif change == 'rm-mod':
                os.remove(os.path.join(root, 'pkg', 'mod.py'))
            elif change == 'rm-single':
                os.remove(os.path.join(root, 'single.py'))
            elif change == 'rename-pkg':
                os.rename(os.path.join(root, 'pkg'), os.path.join(root, 'pkg_old'))
            else:
                os.remove(os.path.join(root, 'pkg', '__init__.py'))
            src, pos = texts[b]
            sh.case((a, change, b), True, {'entry': 'disk-change', 'first': texts[a][0], 'change': change, 'then': src})
            sh.count('disk-change-sequences')
            for which in ('assist', 'location', 'lint'):
                prob, cls = check_cursor(project, which, src, pos, fn) if which != 'lint' else check_lint(project, src + '\n', fn)
                sh.count('%s:%s' % (which, cls))
                if prob and (prob[0] + ':after-disk-change') not in [v['signature'] for v in sh.violations]:
                    sh.violation(prob[0] + ':after-disk-change', {'entry': 'disk-change', 'seq': [a, change, b]},
                                 'after %r, then %s, %s on %r: %s' % (texts[a][0], change, which, src, prob[1].replace(root, '<root>')))
        finally:
            shutil.rmtree(root, ignore_errors=True)
    return sh.result()


def w_programs(job):
    from hypothesis import strategies as st
    from vlib.gen.programs import programs
    idx, seed, n = job
    sh = Shard()
    rnd = random.Random(seed)

    def prop(prog):
        src = prog['src']
        fn = suppview.filename_for(prog['package'])
        try:
            tree = ast.parse(src)
        except SyntaxError:
            tree = None
        project = suppview.project()
        run_text(sh, project, src, fn, positions_for(src, tree, rnd, 10), 'generated-program', False)
        for text, pos, label in mutations(src, rnd, 3):
            run_text(sh, project, text, fn, [(pos, 'mutation-cursor')], label, False)
    core.hyp_search(sh, prop, programs('c01'), seed, n, shrink=False, max_rounds=1)
    flush(sh)
    return sh.result()


# ---------------------------------------------------------------------------
# stream 5 (thorough): coverage-guided atheris over token-built sources, semantic oracle inside the target

TOKENS = ['\n', '\n    ', '\n        ', ' ', 'a', 'b', 'self', 'x', 'cls', 'f', 'A', 'os', 'path', '.', ',', '(', ')', '[', ']', '{', '}', ':', '=', ':=',
          '+', '*', '**', '@', '->', ';', '\\\n', '1', "'s'", 'def ', 'class ', 'return ', 'yield ', 'lambda ', 'import ', 'from ', 'as ', 'if ',
          'elif ', 'else', 'for ', 'in ', 'while ', 'try', 'except ', 'finally', 'with ', 'global ', 'nonlocal ', 'del ', 'pass', 'break', 'continue',
          'raise ', 'async ', 'await ', 'not ', 'and ', 'or ', 'is ', 'None', 'locals', 'super', '__file__', 'cyc_a', 'fx_mod', '#c', '\t']


def decode_fuzz(data):
    """bytes -> (source, cursor). The last two bytes choose the cursor; every other byte picks a token."""
    if len(data) < 3:
        return None
    body, cl, cc = data[:-2], data[-2], data[-1]
    src = ''.join(TOKENS[b % len(TOKENS)] for b in body[:80])
    lines = core.plines(src) or ['']
    ln = cl % len(lines) + 1
    col = cc % (len(lines[ln - 1]) + 1)
    return src, (ln, col)


def fuzz_one(data):
    """-> (signature, detail) or None"""
    dec = decode_fuzz(data)
    if dec is None:
        return None
    src, pos = dec
    project = suppview.project()
    fn = suppview.filename_for(False)
    prob, cls = check_lint(project, src, fn)
    if prob and not classify_known(prob[0]):
        return prob
    for which in ('assist', 'location'):
        prob, cls = check_cursor(project, which, src, pos, fn)
        if prob and not classify_known(prob[0]):
            return prob
    return None


ATHERIS_DRIVER = r'''
import sys, os, logging
sys.path.insert(0, %(deps)r); sys.path.insert(0, %(verif)r); sys.path.insert(0, %(repo)r)
os.environ['VERIF_REPO'] = %(repo)r
logging.disable(logging.CRITICAL)
import atheris
with atheris.instrument_imports(include=['supp']):
    import supp.assistant, supp.linter, supp.nast, supp.scope, supp.name, supp.evaluator, supp.util, supp.project, supp.module
from checks import c08
def target(data):
    bad = c08.fuzz_one(data)
    if bad:
        raise RuntimeError('C08VIOLATION ' + bad[0] + ' :: ' + bad[1][:200])
atheris.Setup(sys.argv, target)
atheris.Fuzz()
'''


def run_atheris(run, seconds):
    import subprocess
    import tempfile
    import shutil
    deps = os.path.join(core.VERIF, '.deps')
    if not os.path.isdir(os.path.join(deps, 'atheris')):
        subprocess.run([sys.executable, '-m', 'pip', 'install', '-q', '--no-index', '--find-links', '/opt/veriftools/wheels', '--target', deps, 'atheris'],
                       stdout=subprocess.DEVNULL, stderr=subprocess.DEVNULL)
    if not os.path.isdir(os.path.join(deps, 'atheris')):
        run.notes.append('atheris unavailable: stream 5 skipped')
        return
    tmp = tempfile.mkdtemp(prefix='c08fuzz')
    try:
        drv = os.path.join(tmp, 'drv.py')
        with open(drv, 'w') as f:
            f.write(ATHERIS_DRIVER % {'deps': deps, 'verif': core.VERIF, 'repo': core.REPO})
        procs = []
        for i in range(12):
            corpus_dir = os.path.join(tmp, 'corpus%d' % i)
            os.makedirs(corpus_dir)
            if i % 2:
                for k, text in enumerate(CYCLIC_TEMPLATES[:12]):
                    # seed inputs: closest token encoding is not needed, any bytes do; give the fuzzer varied lengths
                    with open(os.path.join(corpus_dir, 'seed%d' % k), 'wb') as f:
                        f.write(bytes((hash(ch) + k) % 256 for ch in text[:40]) + bytes([k, k * 3 % 256]))
            procs.append(subprocess.Popen(
                [sys.executable, drv, corpus_dir, '-max_total_time=%d' % seconds, '-seed=%d' % (core.derive_seed(run.seed, 'c08ath', i) % 2 ** 31 or 1),
                 '-max_len=82', '-artifact_prefix=%s/crash%d-' % (tmp, i), '-print_final_stats=1', '-timeout=120'],
                stdout=open(os.path.join(tmp, 'fuzz%d.log' % i), 'wb'), stderr=subprocess.STDOUT, cwd=tmp, env=dict(os.environ, PYTHONPATH=deps, PYTHONHASHSEED='0')))
        execs = 0
        for i, p in enumerate(procs):
            # (output goes to a file: a pipe nobody drains stalls the campaign once it holds 64 KiB)
            p.wait()
            with open(os.path.join(tmp, 'fuzz%d.log' % i), 'rb') as f_:
                out = f_.read().decode('utf-8', 'replace')
            for line in out.splitlines():
                if 'stat::number_of_executed_units' in line:
                    execs += int(line.split()[-1])
            for fn in os.listdir(tmp):
                if fn.startswith('crash%d-' % i):
                    data = open(os.path.join(tmp, fn), 'rb').read()
                    bad = fuzz_one(data)
                    if bad:
                        src, pos = decode_fuzz(data)
                        run.violations.append({'signature': bad[0], 'case': {'entry': bad[0].split(':')[0], 'src': src, 'pos': list(pos)},
                                               'detail': 'atheris: ' + bad[1]})
            if p.returncode not in (0,) and 'C08VIOLATION' not in out:
                run.notes.append('atheris worker %d exit %s: %s' % (i, p.returncode, out[-200:]))
        run.extra['atheris_executions'] = execs
        run.evaluations += execs
    finally:
        shutil.rmtree(tmp, ignore_errors=True)


KNOWN_SIGS = {}
_listed = {e['id'] for e in core.load_known(PROPERTY) if e.get('status') == 'finding'}
KNOWN_SIGS = {k: v for k, v in KNOWN_SIGS.items() if k in _listed}
KNOWN = {fid: (lambda v, p=pred: p(v['signature'])) for fid, pred in KNOWN_SIGS.items()}


def classify_known(sig):
    for fid, pred in KNOWN_SIGS.items():
        if pred(sig):
            return fid
    return None


def run(run):
    files = corpus.sample(core.derive_seed(run.seed, 'c08f'), run.pick(60, 1750), include_repo=True, max_bytes=run.pick(60000, None))
    run.pmap(w_files, [(sh_, core.derive_seed(run.seed, 'c08', i), run.pick(16, 40), run.pick(6, 30))
                       for i, sh_ in enumerate(corpus.shards(files, 16))])
    run.pmap(w_cyclic, [(i, core.derive_seed(run.seed, 'c08c', i), run.pick(40, 600)) for i in range(4)])
    run.pmap(w_programs, [(i, core.derive_seed(run.seed, 'c08p', i), run.pick(30, 600)) for i in range(12)])
    run.pmap(w_hier, [(i, core.derive_seed(run.seed, 'c08h', i), run.pick(40, 800)) for i in range(8)])
    run.pmap(w_disk_changes, [0, 1])
    run.pmap(w_sequences, [(core.derive_seed(run.seed, 'c08q', i), sz) for i, sz in enumerate(run.pick([[60, 130], [250], [420]], [[60, 130, 90], [250, 300], [420, 700], [1000], [1500], [2500]]))])
    run.extra['timeouts_inconclusive'] = sum(v for k, v in run.counters.items() if k.endswith(':timeout'))
    if not run.quick:
        run_atheris(run, int(os.environ.get('VERIF_FUZZ_SECONDS', '300')))


def replay(case):
    if case.get('entry') == 'disk-change':
        out = []
        for job in (0, 1):
            for v in w_disk_changes(job)['violations']:
                if v['case'].get('seq') == case.get('seq') or not out:
                    out.append({'signature': v['signature'], 'case': v['case'], 'detail': v['detail']})
        return out[:3]
    if case.get('entry') == 'hierarchy-history':
        return [{'signature': sig + ':project-history', 'case': case, 'detail': detail} for sig, detail in run_hier(case['hierarchy'], case['order'])]
    project = suppview.project()
    fn = case.get('filename') or suppview.filename_for(False)
    if 'filename' in case and case['filename'] is None:
        fn = None           # recorded from the no-filename stream
    if case['entry'] == 'lint':
        prob, cls = check_lint(project, case['src'], fn)
    else:
        prob, cls = check_cursor(project, case['entry'], case['src'], tuple(case['pos']), fn)
    if prob:
        return [{'signature': prob[0], 'case': case, 'detail': prob[1]}]
    return []
