"""C13 - the analysis depends on program structure, not on layout (metamorphic)."""
import ast
import os
import random

from vlib import core, corpus, suppview, layout
from vlib.core import Shard, Found

PROPERTY = 'C13'
LEVEL = 'exploration'
RULE = ('real files (stdlib sample + repository) and Hypothesis programs, each compared with its ast.unparse normal form and '
        'with randomised re-layouts from the token-level layout-only printer (newlines/indentation inside brackets, `;` joins, '
        'one-line compound statements, indentation unit 1-8 or tabs, blank lines, comments, extra spaces); a variant counts only '
        'if it parses to an identical AST. Compared: lint (code, message) sequence; for the i-th read (ast.walk order) the '
        'visible-name set, undefined flag and definitions identified by the ordinal of the bound identifier among NAME tokens. '
        'Non-trivial variant: >= 1 line break inside an expression, `;` join or one-line compound statement; distinct by variant text.')
ASSUMPTIONS = ['a layout-only change adds or removes only NL/COMMENT/INDENT/`;` tokens, so the ordinal of a NAME token is layout-invariant',
               'variants whose AST differs from the original (printer limitations) are discarded and counted']


def summary(src, filename):
    proj = suppview.project()
    lv = suppview.lint_view(proj, src, filename)
    diags = [(c, m) for c, m, l, col in lv['raw']]
    order = layout.name_token_ordinals(src)
    src_lines = core.plines(src)

    def charpos(da):
        # ast columns are UTF-8 byte offsets, tokenize columns are characters
        l, c = da
        if 1 <= l <= len(src_lines) and not src_lines[l - 1].isascii():
            try:
                c = len(src_lines[l - 1].encode('utf-8')[:c].decode('utf-8'))
            except UnicodeDecodeError:
                pass
        return (l, c)
    s, scope = suppview.analyse(src, filename, proj)
    reads = []
    from supp.name import MultiName, UndefinedName
    for n in suppview.load_names(s.tree):
        if not hasattr(n, 'flow'):
            reads.append((n.id, 'E42'))
            continue
        names = n.flow.names_at((n.lineno, n.col_offset))
        v = names.get(n.id)
        if v is None:
            d = None
            und = True
        else:
            alts = v.alt_names if isinstance(v, MultiName) else [v]
            d = []
            und = False
            for a in alts:
                if isinstance(a, UndefinedName):
                    und = True
                    continue
                da = getattr(a, 'declared_at', None)
                if da is None or tuple(da) == (0, 0):
                    d.append('builtin')
                else:
                    d.append(order.get(charpos(tuple(da)), ('unmapped', type(a).__name__)))
            d = sorted(d, key=str)
        reads.append((n.id, d, und, tuple(sorted(set(names)))))
    return diags, reads


def compare(base, got):
    if base[0] != got[0]:
        import collections
        a, b = collections.Counter(base[0]), collections.Counter(got[0])
        if a != b:
            return ('diagnostics-differ', 'only in original %s / only in variant %s' % (list((a - b).items())[:3], list((b - a).items())[:3]))
        return ('diagnostics-order-differs', 'same multiset, different order')
    if len(base[1]) != len(got[1]):
        return ('read-count-differs', '%d vs %d' % (len(base[1]), len(got[1])))
    for i, (x, y) in enumerate(zip(base[1], got[1])):
        if x != y:
            if x[:2] != y[:2]:
                return ('definitions-differ', 'read #%d %s: original %r, variant %r' % (i, x[0], x[1], y[1]))
            if len(x) > 2 and x[2] != y[2]:
                return ('undefined-flag-differs', 'read #%d %s: %r vs %r' % (i, x[0], x[2], y[2]))
            return ('visible-names-differ', 'read #%d %s: %s' % (i, x[0], sorted(set(x[3]) ^ set(y[3]))[:6]))
    return None


def compare_texts(src, text, base, got):
    """compare() for two texts with identical AST. When the printer reordered tokens (ast.unparse prints f(k=1, *x) as
    f(*x, k=1)) NAME-token ordinals cannot identify bindings across the texts and "corresponding order" of diagnostics
    is not defined: such pairs are compared on the multiset of diagnostics only."""
    import collections
    from . import dyn_common
    if layout.name_token_strings(src) == layout.name_token_strings(text):
        return compare(base, got)
    a, b = collections.Counter(base[0]), collections.Counter(got[0])
    if a == b:
        return None
    names = {msg.rpartition(': ')[2] for (code, msg) in list((a - b)) + list((b - a))}
    skw = dyn_common.star_before_keyword_walrus(ast.parse(src))
    bound = set()
    for v in skw.values():
        bound.update(v)
    if names and names <= bound:
        return ('star-argument-evaluated-before-keyword-walrus', 'f(kw=(n := v), *n) and its unparse form f(*n, kw=(n := v)) get different diagnostics for %s: '
                'only in original %s / only in variant %s' % (sorted(names), list((a - b).items())[:3], list((b - a).items())[:3]))
    return ('diagnostics-differ', 'only in original %s / only in variant %s' % (list((a - b).items())[:3], list((b - a).items())[:3]))


def variants_of(src, rnd, k):
    """yield (label, text, stats)"""
    try:
        tree = ast.parse(src)
    except (SyntaxError, ValueError, RecursionError):
        return
    try:
        up = ast.unparse(tree) + '\n'
        yield 'unparse', up, {}
    except RecursionError:
        pass
    for i in range(k):
        st = {}
        try:
            yield 'relayout', layout.relayout(src, rnd, st), st
        except Exception:
            yield 'printer-failed', None, st


def check_source(sh, src, filename, rnd, k, origin):
    try:
        base = summary(src, filename)
    except RecursionError:
        sh.count('skipped:recursion')
        return None
    except Exception as e:
        sh.count('skipped:analysis-crash-%s' % type(e).__name__)      # C08's subject
        return None
    base_ord = len(layout.name_token_ordinals(src))
    base_names = layout.name_token_strings(src)
    for label, text, st in variants_of(src, rnd, k):
        if text is None:
            sh.count('variant-printer-failed')
            continue
        if not layout.same_ast(src, text):
            sh.count('variant-discarded:different-ast:' + label)
            continue
        diags_only = False
        if len(layout.name_token_ordinals(text)) != base_ord or layout.name_token_strings(text) != base_names:
            # ast.unparse reordered tokens (f(k=1, *x) -> f(*x, k=1)): NAME-token ordinals cannot identify bindings across
            # the two texts, but the diagnostics must still agree
            sh.count('variant-compared-on-diagnostics-only:' + label)
            diags_only = True
        nontrivial = label == 'unparse' or any(st.get(x) for x in ('broken', 'joined', 'oneliner'))
        sh.case(text, nontrivial, {'origin': origin, 'variant': label, 'transformations': st, 'text_head': text[:160]})
        sh.count('variants:' + label)
        for x in ('broken', 'joined', 'oneliner'):
            if st.get(x):
                sh.count('variants-with-' + x)
        try:
            got = summary(text, filename)
        except Exception as e:
            return ('variant-crashes:%s' % type(e).__name__, 'analysis of the variant raised %r' % (e,), text)
        diff = compare_texts(src, text, base, got)
        if diff:
            return (diff[0] + ':' + label, diff[1], text)
    return None


def w_files(job):
    files, seed, k = job
    sh = Shard()
    rnd = random.Random(seed)
    for path in files:
        src = corpus.read(path)
        if src is None:
            continue
        tree, why = corpus.parse_in_domain(src, path)
        if tree is None:
            sh.count('file-skipped:' + why.split(':')[0])
            continue
        sh.count('files')
        bad = check_source(sh, src, path, rnd, k, os.path.relpath(path, '/'))
        if bad:
            sig, detail, text = bad
            case = minimise_pair(src, text, path, sig)
            sh.violation(sig, case, detail)
    return sh.result()


def minimise_pair(src, variant, filename, sig):
    """shrink the ORIGINAL by line ddmin; the variant is re-derived with ast.unparse or kept if it still parses alike"""
    label = sig.rpartition(':')[2]

    def still(cand):
        if label == 'unparse':
            v = ast.unparse(ast.parse(cand)) + '\n'
        else:
            # re-layout deterministically from a seed derived from the candidate
            v = layout.relayout(cand, random.Random(core.derive_seed(0, core.digest(cand))))
        if not layout.same_ast(cand, v):
            return False
        d = compare_texts(cand, v, summary(cand, filename), summary(v, filename))
        return bool(d) and (d[0] + ':' + label) == sig
    try:
        if len(src) < 60000 and still(src):
            small = core.minimise_lines(src, still, max_steps=120)
            if label == 'unparse':
                v = ast.unparse(ast.parse(small)) + '\n'
            else:
                v = layout.relayout(small, random.Random(core.derive_seed(0, core.digest(small))))
            return {'src': small, 'variant': v, 'filename': filename}
    except Exception:
        pass
    return {'src': src, 'variant': variant, 'filename': filename}


def w_programs(job):
    from hypothesis import strategies as st
    from vlib.gen.programs import programs
    idx, seed, n, k = job
    sh = Shard()

    def prop(args):
        prog, rseed = args
        fn = suppview.filename_for(prog['package'])
        bad = check_source(sh, prog['src'], fn, random.Random(rseed), k, 'generated')
        sh.count('programs')
        if bad:
            sig, detail, text = bad
            if sig not in sh.excluded:
                raise Found(sig, {'src': prog['src'], 'variant': text, 'filename': fn}, detail)
    core.hyp_search(sh, prop, st.tuples(programs('c01'), st.integers(0, 2 ** 30)), seed, n, shrink=False, max_rounds=3,
                    minimise=lambda f: Found(f.signature, minimise_pair(f.case['src'], f.case['variant'], f.case['filename'], f.signature), f.detail))
    return sh.result()


def wide_pairs(rnd):
    """(source, variant with the same AST): layouts whose lines are wider than 2**16 columns (ast.unparse never wraps, a
    printer may join hundreds of statements with `;`), with bindings and reads right of that column and on the next line"""
    out = []
    n = 6200 + rnd.randrange(0, 2500)
    table = 'KEYWORDS = [\n' + ''.join("    'kw%05d',\n" % i for i in range(n)) + ']\n'
    tail = 'INDEX = {k: i for i, k in enumerate(KEYWORDS)}\nprint(INDEX, KEYWORDS, undefined_name)\n'
    src = 'import os\n' + table + tail
    out.append((src, ast.unparse(ast.parse(src)) + '\n', 'unparse-wide-literal'))
    m = 700 + rnd.randrange(0, 400)
    stmts = ['name_%04d = [%d, "padding padding padding padding padding padding padding"]' % (i, i) for i in range(m)]
    body = '\n'.join(stmts) + '\n'
    tail = 'def user():\n    return name_%04d, name_0000, name_%04d\nunused_%d = name_%04d\n' % (m - 1, m // 2, m, m - 1)
    out.append((body + tail, '; '.join(stmts) + '\n' + tail, 'joined-wide-line'))
    # the wide line inside a function body, reads of the last names on the line itself
    inner = ['    loc_%04d = (%d, "padding padding padding padding padding padding padding padding")' % (i, i) for i in range(m)]
    fsrc = 'def wide():\n' + '\n'.join(inner) + '\n    return loc_%04d, loc_0001\n' % (m - 1)
    fvar = 'def wide():\n    ' + '; '.join(x.strip() for x in inner) + '; probe = loc_%04d\n    return loc_%04d, loc_0001\n' % (m - 1, m - 1)
    fsrc2 = 'def wide():\n' + '\n'.join(inner) + '\n    probe = loc_%04d\n    return loc_%04d, loc_0001\n' % (m - 1, m - 1)
    out.append((fsrc2, fvar, 'joined-wide-line-in-function'))
    # a parenthesised decorator on the FIRST statement of a body, its expression moved below the @ and left of the def column
    for head, var in (('def f(dec):\n', 'dec'), ('for dec in [use]:\n', 'dec'), ('try:\n    pass\nexcept Exception as dec:\n', 'dec'),
                      ('def f(a, dec=use):\n', 'dec')):
        one = head + '    @(%s)\n    def g(): pass\n    use(g)\n' % var
        for k, broken in enumerate(('    @(\n  %s\n    )\n', '    @(\n%s)\n', '    @(\n        %s\n)\n', '    @(  # c\n   %s\n    )\n')):
            two = head + broken % var + '    def g(): pass\n    use(g)\n'
            tail = 'f(use)\n' if head.startswith('def') else ''
            out.append((one + tail, two + tail, 'decorator-expression-below-its-at-%d' % k))
    # import aliases whose `as name` part stands on a later line than the imported name
    one = 'from os import path as p, sep as s\nimport os.path as op\nuse(p, s, op)\n'
    for k, two in enumerate(('from os import (path as\n    p, sep\n as s)\nimport os.path as \\\n  op\nuse(p, s, op)\n',
                             'from os import (path\n  as p,\nsep as\n        s)\nimport os.path \\\n as op\nuse(p, s, op)\n')):
        out.append((one, two, 'alias-on-a-later-line-%d' % k))
        out.append(('def f():\n' + ''.join('    ' + l + '\n' for l in one.split('\n') if l) + 'f()\n',
                    'def f():\n' + ''.join('    ' + l + '\n' for l in two.split('\n') if l) + 'f()\n', 'alias-on-a-later-line-in-function-%d' % k))
    # comments inside a bracketed except clause that mention the handler's variable (and other identifiers) as whole words
    for var in ('err', 'e'):
        one = 'try:\n    pass\nexcept (OSError, ValueError) as %s:\n    use(%s)\nexcept (KeyError) as %s:\n    pass\n' % (var, var, var)
        two = ('try:\n    pass\nexcept (OSError,  # %s is dropped, as %s\n        ValueError) as %s:  # %s\n    use(%s)\n'
               'except (  # as %s :\n KeyError) as %s:\n    pass\n' % (var, var, var, var, var, var, var))
        out.append((one, two, 'comment-names-the-except-variable'))
        out.append(('def f():\n' + ''.join('    ' + l + '\n' for l in one.split('\n') if l), 'def f():\n' + ''.join('    ' + l + '\n' for l in two.split('\n') if l),
                    'comment-names-the-except-variable-in-function'))
    return out


def w_wide(job):
    seed, = job
    sh = Shard()
    rnd = random.Random(seed)
    fn = suppview.filename_for(False)
    for src, variant, label in wide_pairs(rnd):
        if not layout.same_ast(src, variant):
            sh.count('variant-discarded:different-ast:' + label)
            continue
        width = max(len(l) for l in variant.split('\n'))
        sh.case(variant, True, {'origin': 'wide-line', 'variant': label, 'widest_line': width, 'text_head': variant[:120]})
        sh.count('variants:' + label)
        try:
            d = compare_texts(src, variant, summary(src, fn), summary(variant, fn))
        except Exception as e:
            d = ('variant-crashes:%s' % type(e).__name__, 'analysis raised %r' % (e,))
        if d:
            sh.violation(d[0] + ':' + label, {'src': src, 'variant': variant, 'filename': fn}, d[1] + ' [widest line of the variant: %d columns]' % width)
    return sh.result()


def run(run):
    run.pmap(w_wide, [(core.derive_seed(run.seed, 'c13w', i),) for i in range(run.pick(2, 8))])
    files = corpus.sample(core.derive_seed(run.seed, 'c13f'), run.pick(60, 1750), include_repo=True, max_bytes=run.pick(50000, None))
    run.pmap(w_files, [(s, core.derive_seed(run.seed, 'c13', i), run.pick(3, 10)) for i, s in enumerate(corpus.shards(files, 16))])
    run.pmap(w_programs, [(i, core.derive_seed(run.seed, 'c13p', i), run.pick(40, 1200), run.pick(3, 6)) for i in range(16)])
    v = sum(c for k, c in run.counters.items() if k.startswith('variants:'))
    d = sum(c for k, c in run.counters.items() if k.startswith('variant-discarded'))
    run.extra['variant_discard_rate'] = round(d / max(1, v + d), 4)


def replay(case):
    fn = case.get('filename') or suppview.filename_for(False)
    if not layout.same_ast(case['src'], case['variant']):
        return []
    d = compare_texts(case['src'], case['variant'], summary(case['src'], fn), summary(case['variant'], fn))
    if d:
        return [{'signature': d[0], 'case': case, 'detail': d[1]}]
    return []


KNOWN_SIGS = {'C13-star-before-keyword-walrus': lambda sig: sig.startswith('star-argument-evaluated-before-keyword-walrus')}
_listed = {e['id'] for e in core.load_known(PROPERTY) if e.get('status') == 'finding'}
KNOWN = {fid: (lambda v, p=pred: p(v['signature'])) for fid, pred in KNOWN_SIGS.items() if fid in _listed}
