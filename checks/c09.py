"""C09 - a long-lived project answers exactly like a fresh one (cache transparency).

Histories over a small project (a -> b -> d, a -> c -> d, optional e): rewrite-with-new-mtime, touch, create-module and
requests (assist / location / lint through the importing file a.py).  After every request the reply obtained inside
project.check_changes() on the long-lived project must equal the reply of a Project created at that moment.
Exhaustive enumeration of all short histories + a Hypothesis rule-based state machine for long ones.
"""
import itertools
import os
import shutil
import tempfile

from vlib import core
from vlib.core import Shard, Found

PROPERTY = 'C09'
LEVEL = 'exploration'
RULE = ('project a -> b -> d (star imports), a -> c -> d (inheritance), a -> g -> b/c -> d (chains of length 3 below the requesting file), a -> x <-> y (import cycle), modules e / f and package '
        'pkg created later (b star-imports the initially missing f); module contents are functions of toggles; operations: '
        'rewrite with a new mtime (harness counter via os.utime), touch (leaf and importers), create module / package, and sixteen '
        'requests through a.py (assist / location / lint). Exhaustive: quick = every history of length <= 3 over a reduced '
        'alphabet + every  request;edit;edit;request  history; thorough = length <= 4 over the full 27-symbol alphabet; '
        'random: Hypothesis RuleBasedStateMachine histories up to 12 / 30 steps. Non-trivial history: an edit after the edited '
        'module (or an importer of it) was first loaded, followed by a request that depends on it; distinct by operation sequence.')
ASSUMPTIONS = ['modification times come from a harness counter through os.utime (never the clock); every rewrite changes the mtime',
               'deleting files, removing __init__.py and shadowing an already-resolved module from an earlier root are outside the domain',
               'order inside lists of alternative definitions is normalised (C17 owns order)']


# ---------------------------------------------------------------------------
# project model

def sources(state):
    d = 'class D(object):\n    x = 1\n' + ('    extra = 2\n' if state['d_extra'] else '') + 'dname = 1\n' + ('dnew = 2\n' if state['d_new'] else '')
    b = 'from d import *\nfrom f import *\nfrom k import *\nbname = 1\n' + ('bextra = D\n' if state['b_extra'] else '')
    # k exists from the start but exports nothing until it is rewritten (f, in contrast, does not exist at first)
    k = 'kname = 1\n' if state['k_full'] else '_kprivate = 0\n'
    c = 'from d import D\n\n\nclass C(D):\n    y = 1\n' + ('    z = 2\n' if state['c_extra'] else '')
    x = 'import y\nxv = 1\n' + ('xextra = 2\n' if state['x_extra'] else '')
    y = 'import x\nyv = 2\n' + ('yextra = 3\n' if state['y_extra'] else '')
    if state['c_broken']:
        c = c + 'def broken(:\n'            # a module that temporarily does not parse (the user is typing in another buffer)
    # g puts one more unchanged module between the requesting file and b / c: a -> g -> b -> d, a -> g -> c -> d
    g = 'from b import *\nfrom c import C as GC\ngname = 1\n'
    # an import made under a global declaration: the imported module is a dependency like any other
    gl = 'def setup():\n    global ghelper\n    from d import D as ghelper\n'
    out = {'d': d, 'b': b, 'c': c, 'x': x, 'y': y, 'g': g, 'k': k, 'gl': gl,
           # a nested package whose modules use relative imports of level 1 and of level 2 from one directory
           'rel/sub/__init__': '', 'rel/sub/two': 'tvalue = 1\n', 'rel/sub/one': 'from . import two\n',
           'rel/sub/impl': 'from ..helpers import hvalue as hv\nfrom ..helpers import *\n',
           'rel/__init__': 'relvalue = 0\n', 'rel/api': 'from . import helpers\n',
           'rel/helpers': 'hvalue = 1\n' + ('hextra = 2\n' if state['h_extra'] else '')}
    # a directory that becomes a package only later: late/sub/ is a package from the start, late/__init__.py comes with an edit
    out['late/sub/__init__'] = ''
    out['late/sub/mod'] = 'mvalue = 1\n'
    if state.get('late'):
        out['late/__init__'] = 'lvalue = 1\n'
    if state['e']:
        out['e'] = 'evalue = 1\n'
    if state['f']:
        out['f'] = 'fname = 1\n'
    if state['pkg']:
        out['pkg/__init__'] = 'pkgvalue = 0\n'
        out['pkg/sub'] = 'pvalue = 1\n'
    return out


A_SRC = ('from b import *\n'
         'import c\n'
         'import e\n'
         'obj = c.C()\n'
         'obj.x\n'
         'D.x\n'
         'dn\n'
         'e.evalue\n'
         'print(dname, bname)\n'
         'import pkg.sub\n'
         'pkg.sub.pvalue\n'
         'fn\n'
         'import x\n'
         'x.y.yv\n'
         'x.xv\n'
         'from pkg import sub as psub\n'
         'psub.pvalue\n'
         'from rel.api import helpers as rh\n'
         'rh.hvalue\n'
         'import g\n'
         'g.dn\n'
         'g.GC().x\n'
         'kn\n'
         'from rel.sub import one\n'
         'one.two.tvalue\n'
         'from rel.sub import impl\n'
         'impl.hv.real\n'
         'impl.hv\n'
         'from gl import ghelper\n'
         'ghelper.x\n')

REQUESTS = {
    'assist-instance-attr': ('assist', (5, 4)),
    'assist-star-class-attr': ('assist', (6, 2)),
    'assist-names': ('assist', (7, 2)),
    'assist-created-module': ('assist', (8, 2)),
    'location-inherited-attr': ('location', (5, 5)),
    'location-reexported-name': ('location', (9, 11)),
    'lint': ('lint', None),
    'assist-created-package': ('assist', (11, 8)),
    'assist-late-star-names': ('assist', (12, 2)),
    'assist-through-cycle': ('assist', (14, 4)),
    'assist-cycle-member': ('assist', (15, 2)),
    'assist-package-from-import': ('assist', (17, 7)),
    'assist-relative-reexport': ('assist', (19, 5)),
    'assist-deep-star-names': ('assist', (21, 4)),
    'assist-deep-inherited-attr': ('assist', (22, 7)),
    'location-deep-inherited-attr': ('location', (22, 8)),
    'assist-empty-module-star-names': ('assist', (23, 2)),
    'assist-nested-level1': ('assist', (25, 8)),
    'assist-nested-level2': ('assist', (27, 8)),
    'assist-nested-level2-star': ('assist', (28, 6)),
    'assist-global-declared-import': ('assist', (30, 8)),
    # requests from other buffers than a.py: import-line completion, and a package named by a plain import in one buffer and by a
    # dotted import in another
    'assist-import-line-children': ('assist', (1, 16), 'from pkg import ', 'b2.py'),
    'assist-import-line-dotted': ('assist', (1, 16), 'import pkg.beta.', 'b3.py'),
    'assist-dotted-import-buffer': ('assist', (2, 8), 'import pkg.sub\npkg.sub.', 'tools.py'),
    'assist-plain-import-buffer': ('assist', (2, 4), 'import pkg\npkg.', 'other.py'),
    # a relative import that climbs into a directory which is a package only after create:late
    'assist-parent-package-created-later': ('assist', (2, 8), 'from . import mod as sibling\nsibling.', 'late/sub/other.py'),
}
EDITS = ['w:d_extra', 'w:d_new', 'w:b_extra', 'w:c_extra', 'w:c_broken', 'w:h_extra', 'w:k_full', 'w:x_extra', 'w:y_extra', 'touch:d', 'touch:b', 'touch:c', 'create:e', 'create:f', 'create:pkg', 'delete:k', 'delete:pkg', 'create:beta-mod', 'create:beta-init', 'create:late']
ALPHABET = EDITS + sorted(REQUESTS)
QUICK_EDITS = ['w:d_extra', 'w:d_new', 'w:b_extra', 'w:y_extra', 'w:c_broken', 'w:h_extra', 'w:k_full', 'touch:d', 'touch:b', 'create:e', 'create:f', 'create:pkg', 'delete:k', 'delete:pkg', 'create:late']
QUICK_REQUESTS = ['assist-instance-attr', 'assist-star-class-attr', 'assist-names', 'assist-created-module', 'location-inherited-attr',
                  'assist-created-package', 'assist-late-star-names', 'assist-through-cycle', 'assist-package-from-import', 'assist-relative-reexport', 'assist-deep-star-names', 'assist-deep-inherited-attr', 'assist-empty-module-star-names', 'assist-nested-level1', 'assist-nested-level2', 'assist-global-declared-import', 'assist-parent-package-created-later']


class World(object):
    def __init__(self):
        self.root = tempfile.mkdtemp(prefix='c09_')
        self.state = {'d_extra': False, 'd_new': False, 'b_extra': False, 'c_extra': False, 'x_extra': False, 'y_extra': False, 'c_broken': False, 'h_extra': False, 'k_full': False, 'e': False, 'f': False, 'pkg': False, 'late': False}
        self.clock = 1000000000
        self.written = {}
        self.loaded_once = False
        self.edit_after_load = False
        for name, src in sources(self.state).items():
            self.write(name, src)
        self.write('a', A_SRC)
        from supp.project import Project
        self.project = Project([self.root])

    def write(self, name, src):
        path = os.path.join(self.root, name + '.py')
        os.makedirs(os.path.dirname(path), exist_ok=True)
        with open(path, 'w') as f:
            f.write(src)
        self.clock += 10
        os.utime(path, (self.clock, self.clock))
        self.written[name] = src

    def apply(self, op):
        """-> None for edits; (got, want) for requests"""
        if op.startswith('w:'):
            key = op[2:]
            self.state[key] = not self.state[key]
            mod = {'h': 'rel/helpers'}.get(key[0], key[0])
            self.write(mod, sources(self.state)[mod])
            if self.loaded_once:
                self.edit_after_load = True
            return None
        if op.startswith('touch:'):
            path = os.path.join(self.root, op[6:] + '.py')
            self.clock += 10
            os.utime(path, (self.clock, self.clock))
            if self.loaded_once:
                self.edit_after_load = True
            return None
        if op in ('create:beta-mod', 'create:beta-init'):
            # a sub-directory of the package that gets its module first and its __init__.py later
            if self.state['pkg']:
                d = os.path.join(self.root, 'pkg', 'beta')
                if op == 'create:beta-mod' and not os.path.exists(os.path.join(d, 'tools.py')):
                    self.write('pkg/beta/tools', 'tvalue = 1\n')
                    if self.loaded_once:
                        self.edit_after_load = True
                elif op == 'create:beta-init' and os.path.isdir(d) and not os.path.exists(os.path.join(d, '__init__.py')):
                    self.write('pkg/beta/__init__', 'betavalue = 1\n')
                    if self.loaded_once:
                        self.edit_after_load = True
            return None
        if op.startswith('create:'):
            key = op[7:]
            if not self.state[key]:
                self.state[key] = True
                for name, src in sources(self.state).items():
                    if name.split('/')[0] == key:
                        self.write(name, src)
                if self.loaded_once:
                    self.edit_after_load = True
            return None
        if op.startswith('delete:'):
            # a module file removed (renamed, moved) between two requests; w:k_full writes it again
            path = os.path.join(self.root, op[7:] + '.py')
            if op == 'delete:pkg':
                # a whole package directory removed (renamed away); create:pkg brings it back
                if self.state['pkg']:
                    self.state['pkg'] = False
                    shutil.rmtree(os.path.join(self.root, 'pkg'), ignore_errors=True)
                    if self.loaded_once:
                        self.edit_after_load = True
            elif os.path.exists(path):
                os.remove(path)
                self.written.pop(op[7:], None)
                if self.loaded_once:
                    self.edit_after_load = True
            return None
        from supp.project import Project
        with self.project.check_changes():
            got = request(self.project, self.root, op)
        want = request(Project([self.root]), self.root, op)
        self.loaded_once = True
        return got, want

    def close(self):
        shutil.rmtree(self.root, ignore_errors=True)


def request(project, root, op):
    from supp import assistant, linter
    kind, pos = REQUESTS[op][:2]
    A_SRC_, fname = (REQUESTS[op][2], REQUESTS[op][3]) if len(REQUESTS[op]) > 2 else (A_SRC, 'a.py')
    fn = os.path.join(root, fname)
    try:
        if kind == 'lint':
            return ('ok', sorted(tuple(r[:4]) for r in linter.lint(project, A_SRC_, fn)))
        if kind == 'assist':
            r = assistant.assist(project, A_SRC_, pos, fn)
            if fname != 'a.py':
                # import-line completion also lists what is on sys.path: keep what concerns the project
                return ('ok', (r[0], [x for x in r[1] if x in ('sub', 'beta', 'tools', 'pkgvalue', 'pvalue', 'mvalue')]))
            return ('ok', (r[0], list(r[1])))
        res = assistant.location(project, A_SRC_, pos, fn)
        out = []
        for r in res:
            if isinstance(r, list):
                out.append(sorted((tuple(e['loc']), os.path.basename(e['file'] or '')) for e in r))
            else:
                out.append((tuple(r['loc']), os.path.basename(r['file'] or '')))
        return ('ok', out)
    except Exception as e:
        return ('exc', type(e).__name__)


def run_history(ops):
    """-> (problem or None, nontrivial)"""
    w = World()
    try:
        nontrivial = False
        for step, op in enumerate(ops):
            r = w.apply(op)
            if r is None:
                continue
            if w.edit_after_load:
                nontrivial = True
            got, want = r
            if got != want:
                return ('stale-reply:%s:after-%s' % (op, last_edit(ops[:step])),
                        'history %s: request %s replies %s on the long-lived project, %s on a new project' % (list(ops[:step + 1]), op, _short(got), _short(want))), nontrivial
        return None, nontrivial
    finally:
        w.close()


def last_edit(ops):
    for op in reversed(ops):
        if op in EDITS:
            return op
    return 'nothing'


def _short(r):
    s = repr(r)
    return s if len(s) < 300 else s[:300] + '...'


# ---------------------------------------------------------------------------

def w_exhaustive(job):
    histories = job
    sh = Shard()
    for ops in histories:
        prob, nt = run_history(ops)
        sh.case(ops, nt, {'history': list(ops)})
        sh.count('exhaustive-histories')
        if prob:
            sh.violation(prob[0], {'ops': list(ops)}, prob[1])
    return sh.result()


def w_machine(job):
    """Hypothesis rule-based state machine over the same world."""
    import hypothesis
    from hypothesis import strategies as st
    from hypothesis.stateful import RuleBasedStateMachine, rule, run_state_machine_as_test
    idx, seed, n, steps = job
    sh = Shard()
    found = {}

    class Machine(RuleBasedStateMachine):
        def __init__(self):
            super().__init__()
            self.w = World()
            self.ops = []
            self.nt = False

        @rule(op=st.sampled_from(EDITS))
        def edit(self, op):
            self.ops.append(op)
            self.w.apply(op)

        @rule(op=st.sampled_from(sorted(REQUESTS)))
        def ask(self, op):
            self.ops.append(op)
            got, want = self.w.apply(op)
            if self.w.edit_after_load:
                self.nt = True
            if got != want:
                sig = 'stale-reply:%s:after-%s' % (op, last_edit(self.ops[:-1]))
                found['f'] = (sig, list(self.ops), 'history %s: %s vs fresh %s' % (self.ops, _short(got), _short(want)))
                raise AssertionError(sig)

        def teardown(self):
            sh.case(tuple(self.ops), self.nt and len(self.ops) >= 3, {'history': list(self.ops)})
            sh.count('machine-histories')
            sh.count('machine-steps', len(self.ops))
            self.w.close()

    settings = core.hyp_settings(n, shrink=True, stateful_step_count=steps)
    try:
        run_state_machine_as_test(hypothesis.seed(seed)(Machine), settings=settings)
    except AssertionError:
        sig, ops, detail = found['f']
        sh.violation(sig, {'ops': ops}, detail)
    return sh.result()


def run(run):
    hs = []
    if run.quick:
        # every history of length <= 3 over a reduced alphabet that contains an edit and ends in a request,
        # plus the family  request ; edit ; edit ; request  (an importer touched AND its import rewritten between two requests)
        alpha = QUICK_EDITS + QUICK_REQUESTS
        for L in (2, 3):
            for ops in itertools.product(alpha, repeat=L):
                if ops[-1] in REQUESTS and any(o in EDITS for o in ops):
                    hs.append(ops)
        # (the first request only has to load the modules: one request per path through the import graph)
        first = ['assist-instance-attr', 'assist-names', 'assist-created-package', 'assist-through-cycle', 'assist-relative-reexport',
                 'assist-deep-star-names', 'assist-nested-level2', 'assist-global-declared-import', 'assist-parent-package-created-later']
        for r1 in first:
            for e1 in QUICK_EDITS:
                for e2 in QUICK_EDITS:
                    for r2 in QUICK_REQUESTS:
                        hs.append((r1, e1, e2, r2))
        # something created, used, deleted again, used again
        for e1 in ('create:e', 'create:f', 'create:pkg', 'w:k_full'):
            for r1 in QUICK_REQUESTS:
                for e2 in ('delete:k', 'delete:pkg'):
                    for r2 in QUICK_REQUESTS:
                        hs.append((e1, r1, e2, r2))
        scope = 'length <= 3 over %d symbols + all  request;edit;edit;request  and  create;request;delete;request  histories' % len(alpha)
    else:
        for L in (2, 3):
            for ops in itertools.product(ALPHABET, repeat=L):
                if ops[-1] in REQUESTS and any(o in EDITS for o in ops):
                    hs.append(ops)
        # length 4 over the reduced alphabet of the quick tier (the full one has grown to 45 symbols: 2.4 million histories)
        alpha = QUICK_EDITS + QUICK_REQUESTS
        for ops in itertools.product(alpha, repeat=4):
            if ops[-1] in REQUESTS and any(o in EDITS for o in ops):
                hs.append(ops)
        scope = 'length <= 3 over the full %d-symbol alphabet, length 4 over the reduced %d-symbol alphabet' % (len(ALPHABET), len(alpha))
    # directed longer histories (both tiers): a package directory that gets its module before its __init__.py, asked in between;
    # one package named by a dotted import in one buffer and by a plain import in another
    imp = ['assist-import-line-children', 'assist-import-line-dotted', 'assist-dotted-import-buffer', 'assist-plain-import-buffer', 'assist-created-package']
    for r1 in imp:
        for r2 in imp:
            hs.append(('create:pkg', 'create:beta-mod', r1, 'create:beta-init', r2))
            hs.append(('create:pkg', r1, 'create:beta-mod', 'create:beta-init', r2))
            hs.append(('create:pkg', r1, r2, 'delete:pkg', r2))
            hs.append(('create:pkg', 'create:beta-mod', 'create:beta-init', r1, r2))
    run.pmap(w_exhaustive, corpus_shards(hs, 64))
    run.extra['exhaustive'] = True
    run.extra['exhaustive_scope'] = 'all histories (%s) that contain an edit and end in a request: %d histories; longer histories sampled by the state machine' % (scope, len(hs))
    run.pmap(w_machine, [(i, core.derive_seed(run.seed, 'c09m', i), run.pick(12, 300), run.pick(12, 30)) for i in range(16)])


def corpus_shards(items, n):
    return [items[i::n] for i in range(n) if items[i::n]]


def replay(case):
    prob, nt = run_history([str(o) for o in case['ops']])
    if prob:
        return [{'signature': prob[0], 'case': case, 'detail': prob[1]}]
    return []


KNOWN = {}
