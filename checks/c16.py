"""C16 - exactly one server under every interleaving; close and disconnect end it.

(1) schedules: a deterministic scheduler (vlib/sched.py) owns every thread; source lines of supp/remote.py are the
    yield points; process launch and connection are counting fakes.  Scenarios: up to three threads performing
    prepare() / first calls, optionally followed by close() and a second round.  Exhaustive DFS with replay under a
    preemption bound (2 quick, 3 thorough) + Hypothesis-generated unbounded schedules.
(2) fault sequences with a REAL subprocess: close() ends the child and the client is usable again; the server
    exits on its own when the client end disappears (closed connection, killed client); an executable that
    cannot start raises instead of hanging.
"""
import os
import signal
import subprocess
import sys
import time
import traceback

from vlib import core, sched
from vlib.core import Shard, Found

PROPERTY = 'C16'
LEVEL = 'exploration'
RULE = ('scenarios = every multiset of 1..3 operations from {prepare, call A, call B, call C} started together, each also '
        'preceded by a completed prepare(), and each followed by close() + a second concurrent round; close() racing with '
        'prepare() followed by calls; schedules enumerated '
        'exhaustively by DFS with replay under a preemption bound (line granularity inside supp/remote.py), plus Hypothesis '
        'schedules without bound. Invariant: exactly one launch per session (launches - closes <= 1 at all times), no '
        'operation raises, every call returns the reply to its own request, no deadlock. Real-subprocess runs: close, reuse '
        'after close, client connection closed, client process killed, unstartable executable. Non-trivial schedule: >= 1 '
        'preemption inside run/prepare/_threaded_run/_call; distinct by the (thread, line) trace.')
ASSUMPTIONS = ['interleavings are explored at source-line granularity of supp/remote.py only; races inside multiprocessing.connection or the interpreter are out of reach',
               'the fake connection answers requests in arrival order, as the single-threaded server does',
               'liveness bounds in the real-process part are generous (10 s) and their expiry with the child provably alive is a violation, otherwise inconclusive']

CALLS = {'G': ('configure', ({'sources': ['.']},)), 'A': ('lint', ('src-A', 'a.py')), 'B': ('assist', ('src-B', (1, 0), 'b.py')), 'C': ('location', ('src-C', (2, 3), 'c.py'))}


def expected_reply(op):
    name, args = CALLS[op]
    if name == 'lint':
        args = args + (False,)
    return ['reply-to', name, _listify(args)]


def _listify(x):
    return [_listify(i) for i in x] if isinstance(x, (list, tuple)) else x


def run_schedule(schedule, scenario):
    """scenario: {'pre': bool, 'ops': 'PAB', 'second': 'AB' or ''} -> (sched, problem or None)"""
    import supp.remote as R
    s = sched.Sched(schedule, R.__file__)
    env, restore = sched.install(s, R, fail_first_launch=scenario.get('fail_first', False))
    try:
        def op_fn(op):
            if op == 'P':
                return lambda: env.prepare()
            name, args = CALLS[op]
            return lambda: getattr(env, name)(*args)

        def seq_main():
            # a sequential driver thread for the phases that must not overlap
            pass
        phases = []
        if scenario.get('pre'):
            phases.append(['P'])
        phases.append(list(scenario['ops']))
        if scenario.get('second'):
            phases.append(['X'])
            phases.append(list(scenario['second']))
        if scenario.get('then'):
            phases.append(list(scenario['then']))
        results = []
        for pi, ops in enumerate(phases):
            tids = []
            for i, op in enumerate(ops):
                tid = 'T%d.%d' % (pi, i)
                if op == 'X':
                    s.spawn(tid, lambda: env.close())
                else:
                    s.spawn(tid, op_fn(op))
                tids.append((tid, op))
            try:
                s.run()
            except sched.Deadlock as e:
                return s, ('deadlock', 'no enabled thread: %s' % (e,))
            results.extend(tids)
        for tid, st in s.threads.items():
            if st['exc'] is not None and scenario.get('fail_first') and isinstance(st['exc'], OSError) and tid == getattr(s, 'failed_in', None):
                continue        # the injected failure surfaces in the thread that made the attempt (starter: nobody waits
                                # for it; caller: "launch failed" is the documented outcome); everybody else must be served
            if st['exc'] is not None:
                e = st['exc']
                tb = traceback.extract_tb(e.__traceback__)
                where = [f for f in tb if f.filename == R.__file__]
                loc = '%s:%s' % (where[-1].name, where[-1].line) if where else 'outside'
                return s, ('exception:%s:%s' % (type(e).__name__, where[-1].name if where else 'outside'), 'thread %s raised %r at %s' % (tid, e, loc))
        sessions = 1 + (1 if scenario.get('second') else 0)
        if s.max_live > 1:
            return s, ('two-servers-alive', 'launches=%d closes=%d' % (s.launches, s.closes))
        if 'X' in scenario['ops']:
            # close() racing with prepare(): it either finds no connection yet (no-op) or ends that server; afterwards
            # the calls of the last phase must be served by exactly one live server
            if s.launches - s.closes != 1:
                return s, ('live-servers-after-racing-close', 'launches=%d closes=%d after the final calls were answered' % (s.launches, s.closes))
        elif s.launches != sessions and not (scenario.get('fail_first') and s.launches <= 1):
            return s, ('launch-count', '%d launches for %d session(s)' % (s.launches, sessions))
        for tid, op in results:
            if op in CALLS and tid == getattr(s, 'failed_in', None):
                continue
            if op in CALLS:
                got = s.threads[tid]['result']
                if got != expected_reply(op):
                    return s, ('reply-mispaired', 'call %s (%s) received %r' % (op, tid, got))
        return s, None
    finally:
        restore()


def dfs(scenario, bound, cap):
    """exhaustive exploration under a preemption bound; returns (count, nontrivial traces, problems)"""
    stack = [[]]
    seen = set()
    n = 0
    problems = {}
    traces = set()
    nontrivial = set()
    complete = True
    while stack:
        if n >= cap:
            complete = False
            break
        pre = stack.pop()
        s, prob = run_schedule(pre, scenario)
        n += 1
        tr = core.digest([scenario, s.trace])
        if tr not in traces:
            traces.add(tr)
            if s.preempt_lines:
                nontrivial.add(tr)
        if prob and prob[0] not in problems:
            problems[prob[0]] = (prob[1], [c[1] for c in s.choices], s.trace[-12:])
        for i in range(len(pre), len(s.choices)):
            nen, k, dflt = s.choices[i]
            for alt in range(nen):
                if alt != k:
                    new = [c[1] for c in s.choices[:i]] + [alt]
                    npre = sum(1 for j, c in enumerate(new) if c != s.choices[j][2])
                    if npre <= bound and tuple(new) not in seen:
                        seen.add(tuple(new))
                        stack.append(new)
    return n, traces, nontrivial, problems, complete


def scenarios():
    ops = ['P', 'A', 'B', 'C']
    import itertools
    base = []
    for k in (1, 2, 3):
        for comb in itertools.combinations_with_replacement(ops, k):
            if comb.count('A') > 1 or comb.count('B') > 1 or comb.count('C') > 1:
                continue
            base.append(''.join(comb))
    out = []
    for b in base:
        out.append({'ops': b, 'pre': False, 'second': ''})
        if 'P' not in b or len(b) > 1:
            out.append({'ops': b, 'pre': True, 'second': ''})
    for b in ('PA', 'AB', 'PAB'):
        out.append({'ops': b, 'pre': False, 'second': 'AB'})
        out.append({'ops': b, 'pre': False, 'second': 'PA'})
    # fault: the first launch attempt fails; when it was the background starter's, the caller must retry itself
    for b in ('PA', 'PAB', 'PPA'):
        out.append({'ops': b, 'pre': False, 'second': '', 'fail_first': True})
    out.append({'ops': 'A', 'pre': True, 'second': '', 'fail_first': True})
    # a configured session, close(), and a second session started concurrently (nothing of the first may leak into it)
    for b in ('AB', 'PA', 'PAB'):
        out.append({'ops': 'G', 'pre': False, 'second': b})
    out.append({'ops': 'GA', 'pre': True, 'second': 'PB'})
    # close() concurrent with background pre-start requests (no call in flight), then calls
    out.append({'ops': 'PX', 'pre': False, 'second': '', 'then': 'A'})
    out.append({'ops': 'PPX', 'pre': False, 'second': '', 'then': 'AB'})
    out.append({'ops': 'PX', 'pre': True, 'second': '', 'then': 'AB'})
    return out


def w_dfs(job):
    scenario, bound, cap = job
    sh = Shard()
    n, traces, nontrivial, problems, complete = dfs(scenario, bound, cap)
    sh.evaluations += n
    # distinct = distinct (thread, line) traces; non-trivial = traces with at least one preemption
    sh.nontrivial.update(nontrivial)
    sh.trivial_distinct.update(traces - nontrivial)
    if len(sh.samples) < 2:
        sh.samples.append({'scenario': scenario, 'schedules': n, 'distinct_traces': len(traces), 'with_preemption': len(nontrivial), 'bound': bound, 'complete': complete})
    sh.count('schedules', n)
    sh.count('scenarios')
    if not complete:
        sh.count('scenarios-capped')
    for sig, (detail, choices, tail) in problems.items():
        sh.violation(sig, {'kind': 'schedule', 'scenario': scenario, 'schedule': choices}, '%s; last steps %s' % (detail, tail))
    return sh.result()


def w_random(job):
    from hypothesis import strategies as st
    idx, seed, n = job
    sh = Shard()
    scs = scenarios()

    def prop(args):
        si, schedule = args
        scenario = scs[si % len(scs)]
        s, prob = run_schedule(schedule, scenario)
        sh.case(s.trace, bool(s.preempt_lines), {'scenario': scenario, 'schedule': schedule[:20], 'steps': len(s.trace)})
        sh.count('random-schedules')
        if prob and prob[0] not in sh.excluded:
            raise Found(prob[0], {'kind': 'schedule', 'scenario': scenario, 'schedule': list(schedule)}, prob[1])
    core.hyp_search(sh, prop, st.tuples(st.integers(0, 1000), st.lists(st.integers(0, 3), max_size=80)), seed, n, shrink=True, max_rounds=4)
    return sh.result()


# ---------------------------------------------------------------------------
# real subprocess part

def alive(pid):
    """running, i.e. present and not a zombie waiting to be reaped by its parent"""
    try:
        with open('/proc/%d/stat' % pid) as f:
            stat = f.read()
    except OSError:
        return False
    state = stat.rpartition(')')[2].split()[0]
    return state not in ('Z', 'X')


def wait_exit(pid, seconds):
    t0 = time.time()
    while time.time() - t0 < seconds:
        if not alive(pid):
            return True
        time.sleep(0.05)
    return not alive(pid)


CLIENT_CHILD = r'''
import sys, os
sys.path.insert(0, %(repo)r)
from supp.remote import Environment
env = Environment(env={'SUPP_LOG_LEVEL': '100', 'PYTHONPATH': %(repo)r})
env.configure({'sources': ['.']})
print(env.proc.pid, flush=True)
mode = sys.argv[1]
if mode == 'exit':
    os._exit(0)
elif mode == 'closeconn':
    env.conn.close()
    import time
    time.sleep(30)
else:
    import time
    time.sleep(60)
'''


def w_real(job):
    which = job
    sh = Shard()
    from supp.remote import Environment
    prob = None
    detail = ''
    try:
        if which == 'close-then-reuse':
            env = Environment(env={'SUPP_LOG_LEVEL': '100', 'PYTHONPATH': core.REPO})
            env.configure({'sources': ['.']})
            p1 = env.proc
            r1 = env.lint('x = 1\n', 'a.py')
            try:
                env.close()
            except Exception as e:
                prob, detail = 'close-raises:%s' % type(e).__name__, repr(e)
                p1.kill()
            else:
                try:
                    p1.wait(timeout=10)
                except subprocess.TimeoutExpired:
                    prob, detail = 'server-survives-close', 'pid %d still alive 10 s after close()' % p1.pid
                    p1.kill()
                if prob is None:
                    env.configure({'sources': ['.']})
                    p2 = env.proc
                    r2 = env.lint('x = 1\n', 'a.py')
                    if p2.pid == p1.pid or p2.poll() is not None or r2 != r1:
                        prob, detail = 'not-reusable-after-close', 'second session pid=%s poll=%s reply=%r' % (p2.pid, p2.poll(), r2)
                    env.close()
                    try:
                        p2.wait(timeout=10)
                    except subprocess.TimeoutExpired:
                        prob, detail = 'server-survives-close', 'second session'
                        p2.kill()
        elif which == 'reuse-while-old-server-exits-slowly':
            env = Environment(env={'SUPP_LOG_LEVEL': '100', 'PYTHONPATH': core.REPO})
            env.configure({'sources': ['.']})
            p1 = env.proc
            # make the old server linger after it was told to close (slow interpreter shutdown)
            env.eval('import atexit, time\natexit.register(time.sleep, 1.5)\nreturn 1')
            env.close()
            try:
                env.configure({'sources': ['.']})
                r = env.lint('x = 1\n', 'a.py')
                p2 = env.proc
                if r != [] or p2.pid == p1.pid or p2.poll() is not None:
                    prob, detail = 'not-reusable-after-close', 'reply %r, new pid %s (old %s), poll %s' % (r, p2.pid, p1.pid, p2.poll())
                env.close()
                p2.wait(timeout=10)
            except Exception as e:
                prob, detail = 'not-reusable-after-close', 'second session right after close(): %r' % (e,)
            try:
                p1.wait(timeout=10)
            except subprocess.TimeoutExpired:
                p1.kill()
        elif which == 'close-after-server-died':
            # the server process is gone (crashed, killed) when close() is called: the session ends all the same and the client
            # can be used again with a new server
            env = Environment(env={'SUPP_LOG_LEVEL': '100', 'PYTHONPATH': core.REPO})
            env.configure({'sources': ['.']})
            p1 = env.proc
            p1.kill()
            p1.wait(timeout=10)
            try:
                env.close()
            except Exception as e:
                prob, detail = 'close-raises:%s:after-server-died' % type(e).__name__, repr(e)
            try:
                env.configure({'sources': ['.']})
                r = env.lint('x = 1\n', 'a.py')
                p2 = env.proc
                if r != [] or p2.pid == p1.pid or p2.poll() is not None:
                    prob, detail = 'not-reusable-after-close:after-server-died', 'reply %r, pid %s (dead one: %s), poll %s' % (r, p2.pid, p1.pid, p2.poll())
                env.close()
                p2.wait(timeout=10)
            except Exception as e:
                prob, detail = prob or 'not-reusable-after-close:after-server-died', detail or 'second session after close(): %r' % (e,)
        elif which == 'close-without-session':
            env = Environment()
            try:
                env.close()
                env.close()
            except Exception as e:
                prob, detail = 'close-raises:%s' % type(e).__name__, 'close() on a client that never connected: %r' % (e,)
        elif which in ('client-exits', 'client-killed', 'client-closes-connection'):
            mode = {'client-exits': 'exit', 'client-killed': 'sleep', 'client-closes-connection': 'closeconn'}[which]
            child = subprocess.Popen([sys.executable, '-c', CLIENT_CHILD % {'repo': core.REPO}, mode], stdout=subprocess.PIPE, stderr=subprocess.DEVNULL)
            line = child.stdout.readline().decode().strip()
            spid = int(line)
            if mode == 'sleep':
                child.send_signal(signal.SIGKILL)
            if mode != 'closeconn':
                child.wait(timeout=20)
            if not wait_exit(spid, 12):
                prob, detail = 'server-outlives-client:%s' % which, 'server pid %d still alive 12 s after the client end disappeared' % spid
                try:
                    os.kill(spid, signal.SIGKILL)
                except OSError:
                    pass
            if child.poll() is None:
                child.kill()
        elif which == 'unstartable-executable':
            t0 = time.time()
            env = Environment(executable='/nonexistent/python')
            try:
                env.configure({'sources': ['.']})
                prob, detail = 'unstartable-executable-no-exception', 'configure returned'
            except Exception:
                pass
            if time.time() - t0 > 30:
                prob, detail = 'unstartable-executable-hangs', '%.1f s' % (time.time() - t0)
        elif which == 'executable-exits-at-once':
            t0 = time.time()
            env = Environment(executable='/bin/false')
            try:
                env.configure({'sources': ['.']})
                prob, detail = 'dead-executable-no-exception', 'configure returned'
            except Exception:
                pass
            if time.time() - t0 > 30:
                prob, detail = 'dead-executable-hangs', '%.1f s' % (time.time() - t0)
        elif which in ('prepare-then-call-later', 'first-call-from-short-lived-thread'):
            # the thread that launched the server is gone by the time the session is used: the server must still be there
            import threading
            env = Environment(env={'SUPP_LOG_LEVEL': '100', 'PYTHONPATH': core.REPO})
            if which == 'prepare-then-call-later':
                env.prepare()
                t0 = time.time()
                while (env.prepare_thread is not None or not hasattr(env, 'conn')) and time.time() - t0 < 15:
                    time.sleep(0.05)
            else:
                box = {}
                t = threading.Thread(target=lambda: box.setdefault('r', [env.configure({'sources': ['.']}), env.lint('x = 1\n', 'a.py')][1]))
                t.start()
                t.join(30)
                if box.get('r') != []:
                    prob, detail = 'first-call-from-thread-unanswered', repr(box)
            time.sleep(1.0)
            if prob is None:
                p1 = getattr(env, 'proc', None)
                if p1 is None or p1.poll() is not None:
                    prob, detail = 'server-gone-after-launching-thread-ended', 'server exit status %r one second after the thread that launched it had finished' % (p1.poll() if p1 else None,)
                else:
                    try:
                        env.configure({'sources': ['.']})
                        r = env.lint('x = 1\n', 'a.py')
                        if r != [] or env.proc.pid != p1.pid:
                            prob, detail = 'call-after-launching-thread-ended', 'reply %r, server pid %s (launched: %s)' % (r, env.proc.pid, p1.pid)
                    except Exception as e:
                        prob, detail = 'call-after-launching-thread-ended', 'raised %r' % (e,)
            try:
                env.close()
                env.proc.wait(timeout=10)
            except Exception:
                try:
                    env.proc.kill()
                except Exception:
                    pass
        elif which == 'server-slow-to-listen':
            # the handshake while the server is between bind() and listen(): connection attempts are refused for a while, then succeed
            import tempfile
            d = tempfile.mkdtemp(prefix='c16listen_')
            try:
                with open(os.path.join(d, 'sitecustomize.py'), 'w') as f:
                    f.write('import socket, time\n_listen = socket.socket.listen\ndef listen(self, *a):\n    time.sleep(1.3)\n    return _listen(self, *a)\nsocket.socket.listen = listen\n')
                env = Environment(env={'SUPP_LOG_LEVEL': '100', 'PYTHONPATH': d + os.pathsep + core.REPO})
                try:
                    env.configure({'sources': ['.']})
                    r = env.lint('x = 1\n', 'a.py')
                    if r != []:
                        prob, detail = 'slow-listen-wrong-reply', repr(r)
                except Exception as e:
                    prob, detail = 'handshake-fails-while-server-is-about-to-listen', 'first call raised %r although the server was up 1.3 s later' % (e,)
                try:
                    env.close()
                    env.proc.wait(timeout=10)
                except Exception:
                    try:
                        env.proc.kill()
                    except Exception:
                        pass
            finally:
                import shutil
                shutil.rmtree(d, ignore_errors=True)
        elif which == 'slow-executable-then-retry':
            # launch failure by time-out: the interpreter needs longer than the client waits. The caller gets an exception; the
            # process it launched must not stay behind, and the next call (with a working interpreter) gets exactly one server
            import stat
            import tempfile
            d = tempfile.mkdtemp(prefix='c16slow_')
            pidfile = os.path.join(d, 'pid')
            wrapper = os.path.join(d, 'slowpython')
            with open(wrapper, 'w') as f:
                f.write('#!/bin/sh\necho $$ > %s\nsleep 7\nexec %s "$@"\n' % (pidfile, sys.executable))
            os.chmod(wrapper, os.stat(wrapper).st_mode | stat.S_IXUSR)
            env = Environment(executable=wrapper, env={'SUPP_LOG_LEVEL': '100', 'PYTHONPATH': core.REPO})
            try:
                try:
                    env.configure({'sources': ['.']})
                    prob, detail = 'slow-executable-no-exception', 'configure returned although the server cannot have been up'
                except Exception:
                    pass
                p1 = env.proc
                env.executable = sys.executable
                if prob is None:
                    env.configure({'sources': ['.']})
                    r = env.lint('x = 1\n', 'a.py')
                    p2 = env.proc
                    if r != [] or p2.poll() is not None:
                        prob, detail = 'not-usable-after-launch-timeout', 'reply %r poll %s' % (r, p2.poll())
                    time.sleep(4)        # by now the slow interpreter would be up and listening
                    first = int(open(pidfile).read().strip())
                    if prob is None and alive(first):
                        prob, detail = 'two-servers-alive:after-launch-timeout', ('the process launched by the timed-out attempt (pid %d) is still alive '
                                                                                  'beside the server of the retry (pid %d)' % (first, p2.pid))
                        try:
                            os.kill(first, signal.SIGKILL)
                        except OSError:
                            pass
                    env.close()
                    p2.wait(timeout=10)
                try:
                    p1.kill()
                except Exception:
                    pass
            finally:
                import shutil
                shutil.rmtree(d, ignore_errors=True)
    except Exception as e:
        prob, detail = 'real-run-raises:%s:%s' % (which, type(e).__name__), traceback.format_exc()[-400:]
    sh.case(('real', which), True, {'real_process_run': which})
    sh.count('real-process-runs')
    if prob:
        sh.violation(prob, {'kind': 'real', 'which': which}, detail)
    return sh.result()


REAL = ['close-then-reuse', 'close-after-server-died', 'reuse-while-old-server-exits-slowly', 'close-without-session', 'client-exits', 'client-killed', 'client-closes-connection', 'unstartable-executable', 'executable-exits-at-once', 'slow-executable-then-retry', 'prepare-then-call-later', 'first-call-from-short-lived-thread', 'server-slow-to-listen']


def run(run):
    bound = run.pick(2, 3)
    cap = run.pick(4000, 60000)
    run.pmap(w_dfs, [(sc, bound, cap) for sc in scenarios()])
    run.extra['exhaustive'] = run.counters.get('scenarios-capped', 0) == 0
    run.extra['exhaustive_scope'] = 'every schedule with <= %d preemptions at line granularity of supp/remote.py for each of %d scenarios (capped scenarios: %d); random schedules and the real-process runs are sampled' % (
        bound, len(scenarios()), run.counters.get('scenarios-capped', 0))
    run.pmap(w_random, [(i, core.derive_seed(run.seed, 'c16r', i), run.pick(60, 1500)) for i in range(8)])
    run.pmap(w_real, REAL, procs=len(REAL))


def replay(case):
    if case.get('kind') == 'real':
        return w_real(case['which'])['violations']
    s, prob = run_schedule(case['schedule'], case['scenario'])
    if prob:
        return [{'signature': prob[0], 'case': case, 'detail': prob[1]}]
    return []


KNOWN = {}
