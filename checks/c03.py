"""C03 - no phantom definitions; 'possibly undefined' exact; never-bound names flagged.

Generator: programs('c03').  Oracle: dynref in continue (path) mode; ONLY programs whose execution space was
enumerated completely are used, so 'on no path' is decided, not sampled.
"""
import ast

from vlib import core, dynref, suppview
from vlib.core import Shard, Found
from . import dyn_common, c01
from .dyn_common import Dyn, BUILTIN_NAMES

PROPERTY = 'C03'
LEVEL = 'exploration'
RULE = ('Hypothesis programs from the C03 fragment (profile c03: C02 restrictions + comprehension variables and except names '
        'never read after their construct, a function\'s own name not read in its decorators/defaults, a try handler '
        'reachable exactly from before the body and from its end); dynref enumerates EVERY decision sequence in continue '
        '(path) mode; programs that hit the execution cap, a loop/call cut or an abnormal end are discarded and counted. '
        'Per reached read: (a) every same-body alternative supp lists was observed at that read on some path, (b) '
        'has_undefined/absence <=> some path reaches it unbound, (c) unbound on every path and not a builtin => lint E02. '
        'Non-trivial program: has a join (if/loop/try) followed by a checked read; distinct by source text.')
ASSUMPTIONS = ['loop bound 2 suffices for reaching definitions in structured programs',
               'CPython 3.12 + dynref instrumenter (self-test each run)',
               '(b) and (c) are checked only for names that no other scope, star import or builtin could supply (those are C01/C05 matters)']


def neutralise_returns(src):
    """The program supp effectively analyses: `return X` becomes the expression statement `0 or   X` and a bare `return`
    becomes `pass  ` - both exactly as long as what they replace, so every other position of the program stays where it is
    (statements may share a line)."""
    try:
        tree = ast.parse(src)
    except SyntaxError:
        return src, False
    lines = src.splitlines()
    changed = False
    for node in ast.walk(tree):
        if isinstance(node, ast.Return):
            line = lines[node.lineno - 1]
            c = node.col_offset
            if line[c:c + 6] != 'return' or not line.isascii():
                continue
            if node.value is None:
                lines[node.lineno - 1] = line[:c] + 'pass  ' + line[c + 6:]
            elif line[c:c + 7] == 'return ':
                lines[node.lineno - 1] = line[:c] + '0 or   ' + line[c + 7:]
            else:
                continue
            changed = True
    return '\n'.join(lines) + '\n', changed


class NoReturnView(object):
    """Lazy dynref facts about the return-neutralised variant (classifier of the listed finding C03-dead-after-return):
    a discrepancy is attributed to 'flow graph ignores return/raise' iff it vanishes when returns really are no-ops."""

    def __init__(self, prog, cap):
        self.prog = prog
        self.cap = cap
        self.by_pos = None
        self.ok = None

    def load(self):
        if self.ok is not None:
            return self.ok
        src2, changed = neutralise_returns(self.prog['src'])
        self.ok = False
        if not changed:
            return False
        try:
            d2 = Dyn(dict(self.prog, src=src2), 'continue', max(4000, self.cap * 10), lenient=True)
        except Exception:
            return False
        self.exhaustive = d2.exhaustive
        self.by_pos = {}
        for rid, pos, name, outcomes in d2.reads():
            self.by_pos[(pos, name)] = outcomes
        self.ok = True
        return True

    def sites(self, pos, name):
        if not self.load():
            return None
        return {s for oc, s in self.by_pos.get((pos, name), ()) if oc == 'ok'}

    def unbound(self, pos, name):
        """True / False / None (unknown: 'never unbound' needs the complete execution space)"""
        if not self.load():
            return None
        if any(oc == 'unbound' for oc, s in self.by_pos.get((pos, name), ())):
            return True
        return False if self.exhaustive else None


@core.crash_guard({'checked_reads': 0, 'nontrivial': True, 'runs': 0, 'exhaustive': False, 'skipped': None})
def check_program(prog, cap):
    src = prog['src']
    info = {'checked_reads': 0, 'nontrivial': False, 'runs': 0, 'exhaustive': False, 'skipped': None}
    try:
        compile(src, '<gen>', 'exec')
    except SyntaxError as e:
        info['skipped'] = 'syntax:' + str(e.msg)
        return [], info
    try:
        d = Dyn(prog, 'continue', cap)
    except dynref.Unsupported as e:
        info['skipped'] = 'unsupported:' + str(e)
        return [], info
    info['runs'] = d.res['runs']
    info['exhaustive'] = d.exhaustive
    if not d.exhaustive:
        info['skipped'] = 'not-exhaustive'
        return [], info
    proj = suppview.project()
    lv = suppview.lint_view(proj, src, d.filename)
    if lv['E01']:
        return [('lint-E01-on-valid-program', repr(lv['E01']))], info
    problems = []
    ins = d.ins
    has_star = any(k == 'star' for (n, k, sc) in ins.sites.values())
    sites_by_name = {}
    for site, (n, kind, sc) in ins.sites.items():
        sites_by_name.setdefault(n, []).append((site, sc))
    nrv = NoReturnView(prog, cap)
    joins = any(f in prog.get('features', ()) for f in ('if', 'for', 'while', 'try'))
    split_reads = dyn_common.split_statement_reads(d.tree)
    cond_walrus = dyn_common.conditional_walrus_sites(d.tree)
    star_kw = dyn_common.star_before_keyword_walrus(d.tree)
    own_iter = dyn_common.own_iterable_reads(d.tree)
    dead = dyn_common.dead_code_positions(d.tree)
    routed = set()
    for names in list(ins.global_decl.values()) + list(ins.nonlocal_decl.values()):
        routed.update(names)
    shared = suppview.shared_reads(src, d.filename, proj)
    for rid, pos, name, outcomes in d.reads():
        if outcomes and name in routed:
            # names rebound through global/nonlocal declarations are inter-procedural: the definitions are not C03's subject.
            # One clause still applies: a read of a name its own scope declares `global`, which nothing binds at module level
            # (no module-level site, none routed there by a declaration, no star import, not a builtin), is unbound on every
            # path whatever the enclosing FUNCTIONS bind - lint must say Undefined name
            rs = ins.read_scope[rid]
            if (name in ins.global_decl.get(rs, ()) and name not in BUILTIN_NAMES and not has_star
                    and not any(sc in (0, -2) for site, sc in sites_by_name.get(name, []))
                    and all(oc == 'unbound' for oc, s_ in outcomes)):
                info['checked_reads'] += 1
                if (pos[0], pos[1], name) not in lv['E02']:
                    problems.append(('never-bound-not-flagged:global-declared-read',
                                     'read %s at %s: declared global in its function, bound nowhere at module level, unbound on every path, '
                                     'but lint does not report Undefined name (bindings of that identifier in other scopes: %s)' % (
                                         name, pos, sorted(site for site, sc in sites_by_name.get(name, [])))))
            continue
        if not outcomes:
            continue
        rscope = ins.read_scope[rid]
        fresh0 = suppview.fresh_read(src, d.filename, proj, pos)
        if fresh0 == 'E42':
            continue        # C01's subject
        info['checked_reads'] += 1
        if joins:
            info['nontrivial'] = True
        after_return = set()
        dyn_sites = {s for oc, s in outcomes if oc == 'ok'}
        dyn_unbound = any(oc == 'unbound' for oc, s in outcomes)
        ctx = suppview.parent_context(d.tree, pos)
        in_ann = c01.annotation_after_binding(ins, pos, sorted(dyn_sites, key=str)) or pos in ins.ann_range
        # two views of Flow.names_at for this read: first query on a fresh analysis, and one of all reads queried
        # in source order on ONE analysis (what lint does); the second is judged only where it differs
        views = [('', fresh0)]
        sh_view = shared.get(pos, fresh0)
        if sh_view != fresh0 and sh_view != 'E42':
            views.append((':one-analysis-in-source-order', sh_view))
            info['shared_view_differs'] = info.get('shared_view_differs', 0) + 1
        for vtag, fresh in views:
            alts = [a for a in fresh['alts']] if isinstance(fresh, dict) else []
            # (a) phantoms among same-body alternatives
            for kind, decl in alts:
                decl = tuple(decl)
                if decl in ins.sites and ins.sites[decl][2] == rscope and decl not in dyn_sites:
                    if pos in star_kw:
                        problems.append(('star-argument-evaluated-before-keyword-walrus', '*%s at %s: supp lists the walrus %s of a keyword argument that CPython evaluates afterwards' % (name, pos, decl)))
                    elif rid in ins.class_comp_reads:
                        problems.append(('class-body-comprehension-sees-class-names', 'read %s at %s inside a comprehension in a class body: supp lists the class-level binding %s, CPython skips the class scope there' % (name, pos, decl)))
                    elif decl in (nrv.sites(pos, name) or ()) or dyn_common.in_dead_code(dead, decl):
                        # (the second test covers dead code that would crash if it ran: there the return-neutralised run aborts)
                        after_return.add(decl)
                        problems.append(('phantom-after-return', 'supp lists %s for read %s at %s; it reaches the read only if return statements are treated as no-ops' % (decl, name, pos)))
                    elif pos in split_reads and name in split_reads[pos]:
                        problems.append(('statement-split-by-comprehension', 'read %s at %s: supp lists the later binding %s of its own statement' % (name, pos, decl)))
                    elif in_ann:
                        problems.append(('annotation-evaluated-after-binding', 'annotation read %s at %s: supp lists %s' % (name, pos, decl)))
                    else:
                        problems.append(('phantom:%s:%s%s' % (ins.sites[decl][1], ctx, vtag),
                                         'supp associates %s (%s) with read %s at %s but no path reaches the read with that binding; run-time sites %s' % (
                                             decl, ins.sites[decl][1], name, pos, sorted(dyn_sites, key=str))))
            # (b), (c): only for names nothing else could supply
            elsewhere = (name in BUILTIN_NAMES or has_star or name in ('use', 'risky')
                         or any(sc != rscope for site, sc in sites_by_name.get(name, [])))
            if elsewhere:
                continue
            supp_und = (fresh is None) or fresh['undefined']
            if supp_und != dyn_unbound:
                if nrv.unbound(pos, name) is not None and nrv.unbound(pos, name) == supp_und:
                    problems.append(('undefined-flag-after-return', 'read %s at %s: undefined flag supp=%s run time=%s; they agree once return statements are treated as no-ops' % (name, pos, supp_und, dyn_unbound)))
                elif pos in star_kw:
                    problems.append(('star-argument-evaluated-before-keyword-walrus', '*%s at %s: undefined flag supp=%s run time=%s' % (name, pos, supp_und, dyn_unbound)))
                elif rid in ins.class_comp_reads:
                    problems.append(('class-body-comprehension-sees-class-names', 'read %s at %s: undefined flag supp=%s run time=%s' % (name, pos, supp_und, dyn_unbound)))
                elif in_ann:
                    problems.append(('annotation-evaluated-after-binding', 'annotation read %s at %s: undefined flag supp=%s run time=%s' % (name, pos, supp_und, dyn_unbound)))
                elif pos in split_reads and name in split_reads[pos]:
                    problems.append(('statement-split-by-comprehension', 'read %s at %s: undefined flag supp=%s run time=%s' % (name, pos, supp_und, dyn_unbound)))
                elif name in cond_walrus and dyn_unbound and not supp_und:
                    # the listed behaviour is one-directional: a conditionally evaluated walrus counts as a certain rebinding
                    problems.append(('conditional-walrus-shadows-definition', 'read %s at %s: undefined flag supp=%s run time=%s' % (name, pos, supp_und, dyn_unbound)))
                else:
                    problems.append(('undefined-flag:supp=%s:dyn=%s:%s%s' % (supp_und, dyn_unbound, ctx, vtag),
                                     'read %s at %s: supp %s, run time: unbound on some path=%s, sites %s' % (
                                         name, pos, 'absent' if fresh is None else fresh, dyn_unbound, sorted(dyn_sites, key=str))))
            if fresh is None and dyn_sites and dyn_unbound:
                # not "possibly undefined" but resolved to nothing at all (what lint words as 'Undefined name'),
                # which the statement reserves for names unbound on EVERY path
                if in_ann:
                    problems.append(('annotation-evaluated-after-binding', 'annotation read %s at %s: resolved to nothing, bound on some path' % (name, pos)))
                elif pos in own_iter and all(ins.sites[s_][1] == 'comp' for s_ in dyn_sites if s_ in ins.sites):
                    problems.append(('comprehension-own-iterable', 'read %s at %s in the iterable of the generator that binds it: resolved to nothing, bound from the previous trip' % (name, pos)))
                elif pos in split_reads and name in split_reads[pos]:
                    problems.append(('statement-split-by-comprehension', 'read %s at %s: resolved to nothing, bound on some path' % (name, pos)))
                elif rid in ins.class_comp_reads or pos in star_kw:
                    pass
                else:
                    problems.append(('resolved-to-nothing-but-bound-on-some-path:%s%s' % (ctx, vtag),
                                     'read %s at %s: supp lists no definition at all (lint words this as Undefined name); run time reaches it with the name bound at %s' % (
                                         name, pos, sorted(dyn_sites, key=str))))
            if not dyn_sites and dyn_unbound:
                if (pos[0], pos[1], name) not in lv['E02']:
                    if alts and nrv.sites(pos, name):
                        problems.append(('phantom-after-return', 'read %s at %s is unbound on every real path; it is bound on some path once return statements are treated as no-ops' % (name, pos)))
                        continue
                    if rid in ins.class_comp_reads:
                        problems.append(('class-body-comprehension-sees-class-names', 'read %s at %s is unbound on every path (class scope skipped) but supp resolves it to a class-level name' % (name, pos)))
                        continue
                    if pos in split_reads and name in split_reads[pos]:
                        problems.append(('statement-split-by-comprehension', 'read %s at %s is unbound on every path; supp resolves it to the binding its own statement makes afterwards' % (name, pos)))
                        continue
                    if pos in star_kw:
                        problems.append(('star-argument-evaluated-before-keyword-walrus', '*%s at %s is unbound on every path (evaluated before the keyword walrus)' % (name, pos)))
                        continue
                    problems.append(('never-bound-not-flagged:%s' % ctx,
                                     'read %s at %s is unbound on every path but lint does not report Undefined name' % (name, pos)))
            # (d) the linter's verdict: 'Undefined name' on a read that no path reaches unbound
            if vtag == '' and dyn_sites and not dyn_unbound and (pos[0], pos[1], name) in lv['E02']:
                if in_ann:
                    problems.append(('annotation-evaluated-after-binding', 'annotation read %s at %s: lint says undefined, bound at run time' % (name, pos)))
                elif pos in split_reads and name in split_reads[pos]:
                    problems.append(('statement-split-by-comprehension', 'read %s at %s: lint says undefined, bound at run time' % (name, pos)))
                elif rid in ins.class_comp_reads or pos in star_kw:
                    pass        # judged above on the names_at view
                else:
                    problems.append(('lint-undefined-name-but-bound-on-every-path:%s' % ctx,
                                     'lint reports Undefined name: %s at %s; every explored path reaches the read with the name bound (sites %s)%s' % (
                                         name, pos, sorted(dyn_sites, key=str), '' if fresh is None else '; Flow.names_at lists %s' % (fresh,))))
    return problems, info


KNOWN_SIGS = {
    'C03-dead-after-return': lambda sig: sig in ('phantom-after-return', 'undefined-flag-after-return'),
    'C03-annotation-after-binding': lambda sig: sig == 'annotation-evaluated-after-binding',
    'C03-statement-split-by-comprehension': lambda sig: sig == 'statement-split-by-comprehension',
    'C03-conditional-walrus': lambda sig: sig == 'conditional-walrus-shadows-definition',
    'C03-class-body-comprehension': lambda sig: sig == 'class-body-comprehension-sees-class-names',
    'C03-star-before-keyword-walrus': lambda sig: sig == 'star-argument-evaluated-before-keyword-walrus',
    'C03-comprehension-own-iterable': lambda sig: sig == 'comprehension-own-iterable',
}
_listed = {e['id'] for e in core.load_known(PROPERTY) if e.get('status') == 'finding'}
KNOWN_SIGS = {k: v for k, v in KNOWN_SIGS.items() if k in _listed}
KNOWN = {fid: (lambda v, p=pred: p(v['signature'])) for fid, pred in KNOWN_SIGS.items()}


def classify_known(sig):
    for fid, pred in KNOWN_SIGS.items():
        if pred(sig):
            return fid
    return None


def w_programs(job):
    from vlib.gen.programs import programs
    idx, seed, n, cap = job
    sh = Shard()

    def prop(prog):
        probs, info = check_program(prog, cap)
        if info['skipped']:
            sh.count('discard:' + info['skipped'].split(':')[0])
            sh.case(prog['src'], False)
            return
        sh.case(prog['src'], info['nontrivial'] and info['checked_reads'] > 0,
                {'src': prog['src'], 'package': prog['package'], 'executions': info['runs'], 'checked_reads': info['checked_reads']})
        sh.count('exhaustive_programs')
        sh.count('executions', info['runs'])
        sh.count('checked_reads', info['checked_reads'])
        for f in prog['features']:
            sh.count('feat:' + f)
        for sig, detail in probs:
            fid = classify_known(sig)
            if fid:
                sh.known_hit(fid, {'src': prog['src'], 'package': prog['package'], 'detail': detail})
                continue
            if sig not in sh.excluded:
                raise Found(sig, {'src': prog['src'], 'package': prog['package'], 'features': prog['features']}, detail)

    def minimise(f):
        pkg = f.case.get('package', False)
        feats = f.case.get('features', [])

        def still(src):
            compile(src, '<min>', 'exec')
            probs, _ = check_program({'src': src, 'package': pkg, 'features': feats}, cap)
            return any(sig == f.signature for sig, _ in probs)
        small = core.minimise_lines(f.case['src'], still)
        probs, _ = check_program({'src': small, 'package': pkg, 'features': feats}, cap)
        det = [dd for sig, dd in probs if sig == f.signature]
        return Found(f.signature, {'src': small, 'package': pkg, 'features': feats}, det[0] if det else f.detail)
    core.hyp_search(sh, prop, programs('c03'), seed, n, shrink=False, max_rounds=8, minimise=minimise, budget_s=60)
    return sh.result()


def run(run):
    dynref.selftest()
    n = run.pick(300, 4000)
    cap = run.pick(400, 5000)
    run.pmap(w_programs, [(i, core.derive_seed(run.seed, 'c03', i), n, cap) for i in range(16)])
    run.extra['exhaustive_programs'] = run.counters.get('exhaustive_programs', 0)
    run.extra['exhaustive_scope'] = 'per program: every decision sequence enumerated; the program space itself is sampled'
    disc = run.counters.get('discard:syntax', 0) + run.counters.get('discard:unsupported', 0)
    progs = run.counters.get('exhaustive_programs', 0) + run.counters.get('discard:not-exhaustive', 0)
    if progs and disc / (progs + disc) > 0.2:
        raise core.HarnessError('generator discard rate too high')


def replay(case):
    prog = {'src': case['src'], 'package': case.get('package', False), 'features': case.get('features', ['if', 'for', 'try'])}
    probs, info = check_program(prog, 20000)
    seen, out = set(), []
    for sig, detail in probs:
        if sig not in seen:
            seen.add(sig)
            out.append({'signature': sig, 'case': case, 'detail': detail})
    return out
