"""C07 - module resolution agrees with Python's import system.

Generator: directory-tree specs (1-3 source roots, packages nested to depth 4, the same names in
several roots, stdlib / extension-module names mixed in, optional junk files).
Oracle: importlib.machinery.PathFinder applied component by component over roots + sys.path,
importlib.util.resolve_name for relative names, pkgutil.iter_modules for children.
"""
import importlib
import importlib.machinery
import importlib.util
import os
import pkgutil
import shutil
import sys
import tempfile

from vlib import core
from vlib.core import Shard, Found

PROPERTY = 'C07'
LEVEL = 'exploration'
RULE = ('Hypothesis-generated directory trees (1-3 roots in generated order, packages to depth 4, names from a tiny '
        'alphabet plus stdlib/extension names so that shadowing is frequent, optional junk files); per tree every '
        'file-backed dotted name, misspellings, absent children, children of plain modules, a fixed set of stdlib and '
        'extension names, every relative specifier of level 1..depth+2 from every file, up to 60 import statements per tree '
        '(relative of every level with and without tail from every file, absolute) whose bound module must show the unique attribute of '
        'the file importlib loads, and import-line completion for every package. Non-trivial tree: >= 2 roots sharing a top-level name, or a package of depth >= 2, or a generated '
        'name shadowing a stdlib/extension name; distinct by tree spec.')
ASSUMPTIONS = ['reference = importlib.machinery.PathFinder.find_spec walked component by component along submodule_search_locations over (roots + sys.path)',
               'source trees contain .py files only (plus fake extension files for the listing oracle); real extension files (copies of lib-dynload modules) are placed in separate trees that run in child processes, because loading one cannot be undone',
               'no namespace packages, no module/package twins in one directory (outside the property domain)',
               'names that importlib does not find on the path but that are present in sys.modules (e.g. os.path) only require "no ImportError"']

NAMES = ['a', 'b', 'c', 'json', 'os', 'xml', '_bisect', 'math']
_TAG = [x for x in importlib.machinery.EXTENSION_SUFFIXES if x.count('.') > 1 and 'abi3' not in x]
EXT_FILES = ['extplain.so', 'extabi.abi3.so'] + (['exttag' + _TAG[0]] if _TAG else [])
EXT_NAMES = {f.split('.')[0] for f in EXT_FILES}
STD_QUERIES = ['json', 'json.decoder', 'json.tool', 'json.zz', 'xml.dom', 'xml.dom.minidom', 'xml.etree.ElementTree',
               'math', '_bisect', '_json', 'os', 'os.path', 'os.zz', 'zz', 'a.b.c.d.e', 'email.mime.text', 'select']


# ---------------------------------------------------------------------------
# tree materialisation

TAGS = {}     # realpath of a generated file -> the unique attribute name written into it


def materialise(spec, base):
    roots = []
    for i, root in enumerate(spec['roots']):
        rdir = os.path.join(base, 'r%d' % i)
        os.makedirs(rdir)
        roots.append(rdir)
        _fill(rdir, root, spec.get('junk'), top=True, tag='tag_r%d' % i)
        if i in (spec.get('root_init') or ()):
            # a source root that itself holds an __init__.py (a tests/ directory): modules are still imported relative to the root
            with open(os.path.join(rdir, '__init__.py'), 'w') as f:
                f.write('root_marker = 1\n')
    return roots


def _fill(d, children, junk, top=False, tag='tag'):
    for name, node in children.items():
        if node is None:
            fn = os.path.join(d, name + '.py')
            with open(fn, 'w') as f:
                f.write('x = 1\n%s_%s = 1\n' % (tag, name))
            TAGS[os.path.realpath(fn)] = '%s_%s' % (tag, name)
        else:
            pd = os.path.join(d, name)
            os.makedirs(pd)
            fn = os.path.join(pd, '__init__.py')
            with open(fn, 'w') as f:
                f.write('y = 2\n%s_%s_init = 1\n' % (tag, name))
            TAGS[os.path.realpath(fn)] = '%s_%s_init' % (tag, name)
            _fill(pd, node, junk, tag='%s_%s' % (tag, name))
    if junk:
        # tagged extension-module file names: pkgutil / FileFinder enumerate them by suffix without loading them.
        # They are only used by the listing oracle (a fake .so cannot be imported, so they are never resolved).
        for fname in EXT_FILES:
            with open(os.path.join(d, fname), 'wb') as f:
                f.write(b'\x7fELF fake')
        with open(os.path.join(d, 'notes.txt'), 'w') as f:
            f.write('not a module\n')
        if not top:
            with open(os.path.join(d, 'weird.name.py'), 'w') as f:
                f.write('z = 3\n')
            os.makedirs(os.path.join(d, '__pycache__'), exist_ok=True)


def walk(children, prefix=()):
    """Yield (dotted parts, is_pkg) for every module/package of one root spec."""
    for name, node in children.items():
        yield prefix + (name,), node is not None
        if node is not None:
            for x in walk(node, prefix + (name,)):
                yield x


def spec_depth(children):
    return 1 + max([spec_depth(n) for n in children.values() if n is not None] or [0]) if children else 0


# ---------------------------------------------------------------------------
# reference

def ref_find(name, roots):
    path = list(roots) + sys.path
    parts = name.split('.')
    search = path
    spec = None
    for i in range(len(parts)):
        sub = '.'.join(parts[:i + 1])
        try:
            spec = importlib.machinery.PathFinder.find_spec(sub, search)
        except Exception:
            return None
        if spec is None:
            return None
        if i < len(parts) - 1:
            if spec.submodule_search_locations is None:
                return None
            search = list(spec.submodule_search_locations)
    return spec


def ref_kind(spec):
    if spec is None:
        return ('none', None)
    if spec.origin in ('built-in', 'frozen'):
        return ('nofile', None)
    if spec.origin is None:
        return ('namespace', None)
    return ('file', os.path.realpath(spec.origin))


def supp_find(project, name):
    try:
        m = project.get_module(name)
    except ImportError:
        return ('none', None)
    except RecursionError:
        raise
    except Exception as e:
        return ('exc:' + type(e).__name__, None)
    fn = getattr(m, 'filename', None)
    if fn is not None:
        return ('file', os.path.realpath(fn))
    mod = getattr(m, 'module', None)
    f = getattr(mod, '__file__', None)
    if f:
        return ('loaded', os.path.realpath(f), getattr(mod, '__name__', None))
    return ('loaded-nofile', None, getattr(mod, '__name__', None))


def package_of(relparts, is_init):
    """Package name (for resolve_name) of a file located at roots[i]/relparts."""
    parts = list(relparts[:-1])
    return '.'.join(parts)


# ---------------------------------------------------------------------------
# per-tree oracle

def problems_of(spec, base):
    """Return list of (signature, detail) for one tree, and a stats dict."""
    from supp.project import Project
    from supp import assistant
    roots = materialise(spec, base)
    order = spec.get('order')
    if order:
        roots = [roots[i] for i in order if i < len(roots)] + [r for i, r in enumerate(roots) if i not in order]
    importlib.invalidate_caches()
    project = Project(list(roots))
    out = []
    stats = {'queries': 0, 'found': 0, 'absent': 0, 'relative': 0, 'assist': 0}

    # ---- absolute names
    names = set()
    files = []   # (root index, parts, is_pkg)
    for ri, root in enumerate(spec['roots']):
        for parts, is_pkg in walk(root):
            names.add('.'.join(parts))
            files.append((ri, parts, is_pkg))
    queries = set(names)
    for n in sorted(names):
        queries.add(n + '.zz')
        queries.add(n + 'x')
        queries.add(n + '.a')
        queries.add(n + '.json')
        if len(n) > 1:
            queries.add(n[:-1])
    queries.update(STD_QUERIES)
    for name in sorted(queries):
        if not name or name.startswith('.') or name.endswith('.') or '..' in name:
            continue
        if name.split('.')[-1] in EXT_NAMES:
            continue
        stats['queries'] += 1
        rk = ref_kind(ref_find(name, roots))
        sk = supp_find(project, name)
        loaded = name in sys.modules
        if rk[0] == 'file':
            stats['found'] += 1
            is_src = rk[1].endswith('.py')
            if is_src:
                if sk[0] != 'file' or sk[1] != rk[1]:
                    out.append(('resolve:source-file:%s' % _mismatch(sk, rk, name, roots),
                                'name=%s importlib=%s supp=%s' % (name, rk[1], sk)))
            else:
                # extension module: supp imports it; the module object must carry that name
                if sk[0] not in ('loaded', 'loaded-nofile') or sk[2] != name:
                    out.append(('resolve:extension:%s' % sk[0], 'name=%s importlib=%s supp=%s' % (name, rk[1], sk)))
        elif rk[0] == 'none':
            if loaded:
                # a name that is only in sys.modules (os.path) must not be refused - unless a file of the generated tree shadows
                # one of its parents: then the loaded module is a child of some OTHER package of that name
                shadow = None
                parts_ = name.split('.')
                for i in range(1, len(parts_)):
                    pk = ref_kind(ref_find('.'.join(parts_[:i]), roots))
                    if pk[0] == 'file' and pk[1] in TAGS:
                        shadow = pk[1]
                        break
                if shadow is not None:
                    if sk[0] != 'none':
                        out.append(('resolve:loaded-child-of-a-shadowed-package', 'name=%s: %s shadows its parent, importlib finds nothing; supp=%s' % (
                            name, os.path.relpath(shadow, base), sk)))
                elif sk[0] == 'none' or sk[0].startswith('exc:'):
                    out.append(('resolve:loaded-module-refused:%s' % sk[0], 'name=%s is in sys.modules' % name))
            else:
                stats['absent'] += 1
                if sk[0] != 'none':
                    out.append(('resolve:absent-name:%s' % _mismatch(sk, rk, name, roots),
                                'name=%s importlib finds nothing, supp=%s' % (name, sk)))
        elif rk[0] == 'nofile':
            if loaded and sk[0] not in ('loaded', 'loaded-nofile'):
                out.append(('resolve:builtin-loaded:%s' % sk[0], 'name=%s supp=%s' % (name, sk)))

    # ---- relative names
    maxdepth = max([spec_depth(r) for r in spec['roots']] or [0])
    for ri, parts, is_pkg in files:
        rdir = os.path.join(base, 'r%d' % ri)
        if is_pkg:
            fname = os.path.join(rdir, *parts, '__init__.py')
            package = '.'.join(parts)
        else:
            fname = os.path.join(rdir, *parts[:-1], parts[-1] + '.py')
            package = '.'.join(parts[:-1])
        for level in range(1, maxdepth + 3):
            for tail in ('', 'x', 'a.b'):
                rel = '.' * level + tail
                stats['relative'] += 1
                try:
                    want = ('ok', importlib.util.resolve_name(rel, package))
                except ImportError:
                    want = ('ImportError', None)
                try:
                    got = ('ok', project.norm_package(rel, fname))
                except ImportError:
                    got = ('ImportError', None)
                except Exception as e:
                    got = ('exc:' + type(e).__name__, None)
                if got != want:
                    out.append(('norm:%s-vs-%s' % (got[0], want[0]) + (':value' if got[0] == want[0] else ''),
                                'file=%s package=%r spec=%r supp=%r importlib=%r' % (
                                    os.path.relpath(fname, base), package, rel, got, want)))

    # ---- import statements end to end: the module a statement binds is the file importlib would load
    allnames = sorted({p[-1] for ri, p, is_pkg in files} | {'zz'})
    probes = []
    for ri, parts, is_pkg in files:
        rdir = os.path.join(base, 'r%d' % ri)
        fname = os.path.join(rdir, *parts, '__init__.py') if is_pkg else os.path.join(rdir, *parts[:-1], parts[-1] + '.py')
        package = '.'.join(parts) if is_pkg else '.'.join(parts[:-1])
        for level in range(1, maxdepth + 2):
            try:
                base_abs = importlib.util.resolve_name('.' * level, package)
            except ImportError:
                base_abs = None
            tails = [''] + sorted({n[len(base_abs) + 1:] for n in names if base_abs and n.startswith(base_abs + '.')})[:3]
            for tail in tails:
                for child in allnames:
                    target = None if base_abs is None else '.'.join(x for x in (base_abs, tail, child) if x)
                    probes.append(('from %s%s import %s as probe\nprobe.' % ('.' * level, tail, child), fname, target))
    for n in sorted(names):
        probes.append(('import %s\n%s.' % (n, n), asker_of(base), n))
        if '.' in n:
            probes.append(('from %s import %s as probe\nprobe.' % tuple(n.rsplit('.', 1)), asker_of(base), n))
    probes.sort(key=lambda p: core.digest([p[0], os.path.relpath(p[1], base)]))
    for src, fname, target in probes[:spec.get('e2e', 60)]:
        stats['e2e'] = stats.get('e2e', 0) + 1
        rk = ref_kind(ref_find(target, roots)) if target else ('none', None)
        want = TAGS.get(rk[1]) if rk[0] == 'file' else None
        if rk[0] == 'file' and want is None:
            continue            # the name resolves outside the generated tree (stdlib): the tag oracle does not apply
        line2 = src.split('\n')[1]
        try:
            prefix, props = assistant.assist(project, src, (2, len(line2)), fname)
        except Exception as e:
            if want:
                out.append(('import-statement:exc:%s' % type(e).__name__, 'file=%s source=%r: %r' % (os.path.relpath(fname, base), src, e)))
            continue
        got = sorted(p for p in props if p.startswith('tag_'))
        if got != ([want] if want else []):
            kind = 'relative' if src.startswith('from .') else 'absolute'
            out.append(('import-statement:%s:%s' % (kind, 'wrong-file' if got and want else ('not-resolved' if want else 'resolved-but-importlib-finds-nothing')),
                        'file=%s source=%r: the bound module shows %s; importlib loads %s (%s) for %s' % (
                            os.path.relpath(fname, base), src, got, want, rk[1] and os.path.relpath(rk[1], base), target)))

    # ---- import-line completion
    pkgs = sorted({'.'.join(p) for ri, p, is_pkg in files if is_pkg})
    asker = os.path.join(base, 'r0', 'asker.py')
    for pkg in pkgs + ['json', 'xml', 'xml.dom']:
        spec_ = ref_find(pkg, roots)
        if spec_ is None or spec_.submodule_search_locations is None:
            continue
        want = sorted(m.name for m in pkgutil.iter_modules(list(spec_.submodule_search_locations)))
        for form in ('import %s.', 'from %s.', 'from %s import '):
            src = form % pkg
            stats['assist'] += 1
            try:
                prefix, props = assistant.assist(project, src, (1, len(src)), asker)
            except Exception as e:
                out.append(('assist:exc:%s' % type(e).__name__, 'source=%r: %r' % (src, e)))
                continue
            missing = [w for w in want if w not in props]
            if missing:
                out.append(('assist:missing-child', 'source=%r missing=%s got=%s' % (src, missing, props[:20])))
            if form.endswith('import '):
                continue     # proposals legitimately include the module's attributes here
            for c in props:
                if c in EXT_NAMES and spec.get('junk'):
                    continue
                full = pkg + '.' + c
                if full in sys.modules or any(k.startswith(full + '.') for k in sys.modules):
                    continue
                if ref_find(full, roots) is None:
                    why = 'dotted-file-stem' if '.' in c else ('shadowed-root' if _exists_in_any_root(full, roots) else 'other')
                    out.append(('assist:bogus-child:%s' % why, 'source=%r proposes %r which importlib cannot find' % (src, c)))
                    break
    # top level: every generated top-level module must be offered after "import "
    try:
        prefix, props = assistant.assist(project, 'import ', (1, 7), asker)
        stats['assist'] += 1
        tops = sorted({p[0] for ri, p, is_pkg in files})
        missing = [t for t in tops if t not in props]
        if missing:
            out.append(('assist:missing-toplevel', 'missing=%s' % missing))
    except Exception as e:
        out.append(('assist:exc:%s' % type(e).__name__, 'source=%r: %r' % ('import ', e)))
    return out, stats


def asker_of(base):
    return os.path.join(base, 'r0', 'asker.py')


def _exists_in_any_root(full, roots):
    rel = full.split('.')
    for r in list(roots) + sys.path:
        p = os.path.join(r, *rel)
        if os.path.exists(p + '.py') or os.path.exists(os.path.join(p, '__init__.py')):
            return True
    return False


def _mismatch(sk, rk, name, roots):
    """Sub-classify a resolution mismatch by root cause (used for signatures)."""
    if sk[0].startswith('exc:'):
        return sk[0]
    if sk[0] == 'none':
        return 'supp-finds-nothing'
    # does some proper prefix resolve (per importlib) to a place that does not contain supp's file?
    parts = name.split('.')
    sfile = sk[1] or ''
    for i in range(1, len(parts)):
        pspec = ref_find('.'.join(parts[:i]), roots)
        if pspec is None:
            return 'prefix-unimportable'
        locs = pspec.submodule_search_locations
        if locs is None:
            return 'prefix-is-plain-module'
        if not any(sfile.startswith(os.path.realpath(l) + os.sep) for l in locs):
            return 'prefix-shadowed-in-earlier-root'
    return 'wrong-file' if rk[0] == 'file' else 'found-%s' % sk[0]


def tree_strategy():
    from hypothesis import strategies as st
    names = st.sampled_from(NAMES)

    def level(depth):
        if depth >= 4:
            return st.dictionaries(names, st.none(), max_size=3)
        return st.dictionaries(names, st.one_of(st.none(), st.deferred(lambda: level(depth + 1))), max_size=3)
    root = level(1)
    return st.fixed_dictionaries({
        'roots': st.lists(root, min_size=1, max_size=3),
        'order': st.permutations([0, 1, 2]),
        'junk': st.booleans(),
        'root_init': st.lists(st.integers(0, 2), max_size=2, unique=True),
    })


def nontrivial(spec):
    tops = [set(r) for r in spec['roots']]
    shared = any(tops[i] & tops[j] for i in range(len(tops)) for j in range(i + 1, len(tops)))
    deep = any(spec_depth(r) >= 2 for r in spec['roots'])
    shadow = any(set(t) & {'json', 'os', 'xml', '_bisect', 'math'} for t in tops)
    return shared or deep or shadow


def run_case(spec):
    base = tempfile.mkdtemp(prefix='c07_')
    try:
        return problems_of(spec, base)
    finally:
        shutil.rmtree(base, ignore_errors=True)
        for k in [k for k in sys.path_importer_cache if k.startswith(base)]:
            del sys.path_importer_cache[k]


def w_trees(job):
    idx, seed, n = job
    sh = Shard()

    def prop(spec):
        probs, stats = run_case(spec)
        sh.case(spec, nontrivial(spec), {'tree': spec, 'queries': stats})
        for k, v in stats.items():
            sh.count(k, v)
        nr = len(spec['roots'])
        sh.count('trees-with-%d-roots' % nr)
        if any(spec_depth(r) >= 3 for r in spec['roots']):
            sh.count('trees-depth>=3')
        for sig, detail in probs:
            fid = classify_known(sig)
            if fid:
                sh.known_hit(fid, {'tree': spec, 'detail': detail})
                continue
            if sig not in sh.excluded:
                raise Found(sig, spec, detail)
    core.hyp_search(sh, prop, tree_strategy(), seed, n, max_rounds=6)
    return sh.result()


def classify_known(sig):
    for fid, pred in KNOWN_SIGS.items():
        if pred(sig):
            return fid
    return None


# signature-level classifiers for listed findings (only consulted for ids present in known_findings.json)
KNOWN_SIGS = {}
_listed = {e['id'] for e in core.load_known(PROPERTY) if e.get('status') == 'finding'}
KNOWN_SIGS = {k: v for k, v in KNOWN_SIGS.items() if k in _listed}
KNOWN = {fid: (lambda v, p=pred: p(v['signature'])) for fid, pred in KNOWN_SIGS.items()}


def selftest():
    """The reference must find plain things and respect shadowing."""
    base = tempfile.mkdtemp(prefix='c07self_')
    try:
        spec = {'roots': [{'json': None, 'a': {'b': None}}, {'a': {'only1': None}}], 'junk': False}
        roots = materialise(spec, base)
        importlib.invalidate_caches()
        assert ref_kind(ref_find('a.b', roots))[1] == os.path.realpath(os.path.join(roots[0], 'a', 'b.py'))
        assert ref_find('a.only1', roots) is None
        assert ref_find('json.decoder', roots) is None
        assert ref_kind(ref_find('json', roots))[1] == os.path.realpath(os.path.join(roots[0], 'json.py'))
        assert ref_find('xml.dom', roots) is not None
    finally:
        shutil.rmtree(base, ignore_errors=True)


# ---------------------------------------------------------------------------
# compiled modules inside generated trees (real extension files copied under other dotted names), one child process per case:
# loading an extension module is not reversible inside a process

EXT_CHILD = r'''
import sys, os, json, importlib, importlib.machinery
spec = json.load(open(sys.argv[1]))
sys.path.insert(0, spec['repo'])
from supp.project import Project
roots = spec['roots']
for r in spec['on_sys_path']:
    sys.path.insert(1, r)
importlib.invalidate_caches()
def ref(name):
    search = list(roots) + sys.path
    sp = None
    parts = name.split('.')
    for i in range(len(parts)):
        try:
            sp = importlib.machinery.PathFinder.find_spec('.'.join(parts[:i + 1]), search)
        except Exception:
            return None
        if sp is None:
            return None
        if i < len(parts) - 1:
            if sp.submodule_search_locations is None:
                return None
            search = list(sp.submodule_search_locations)
    return os.path.realpath(sp.origin) if sp.origin and os.path.exists(sp.origin) else None
out = []
project = Project(list(roots))
for name in spec['queries']:
    want = ref(name)
    loaded_before = name in sys.modules
    try:
        m = project.get_module(name)
        fn = getattr(m, 'filename', None)
        if fn is None:
            mod = getattr(m, 'module', None)
            fn = getattr(mod, '__file__', None)
            got = ['module', os.path.realpath(fn) if fn else None, getattr(mod, '__name__', None)]
        else:
            got = ['source', os.path.realpath(fn), name]
    except ImportError:
        got = ['ImportError', None, None]
    except Exception as e:
        got = ['exc:' + type(e).__name__, None, None]
    out.append([name, want, got, loaded_before])
json.dump(out, sys.stdout)
'''

EXT_SOURCES = ['_opcode', '_lsprof', '_statistics', '_queue', '_crypt', '_contextvars']


def ext_case(layout, on_sys_path, order):
    """layout: list of (root index, package path tuple, extension stem); -> (problems, stats)"""
    import json
    import subprocess
    import sysconfig
    dyn = os.path.join(sysconfig.get_path('stdlib'), 'lib-dynload')
    tag = _TAG[0] if _TAG else '.so'
    base = tempfile.mkdtemp(prefix='c07x_')
    try:
        roots = [os.path.join(base, 'r%d' % i) for i in range(2)]
        for r in roots:
            os.makedirs(r)
        queries = []
        for ri, pkg, stem in layout:
            src = os.path.join(dyn, stem + tag)
            if not os.path.exists(src):
                continue
            d = roots[ri]
            for part in pkg:
                d = os.path.join(d, part)
                os.makedirs(d, exist_ok=True)
                init = os.path.join(d, '__init__.py')
                if not os.path.exists(init):
                    with open(init, 'w') as f:
                        f.write('marker = 1\n')
            shutil.copy(src, os.path.join(d, stem + tag))
            dotted = '.'.join(pkg + (stem,))
            queries += [dotted, dotted + '.zz', '.'.join(pkg + (stem + 'x',))]
            if pkg:
                queries.append('.'.join(pkg))
        queries = [queries[i % len(queries)] for i in order] + sorted(set(queries)) if queries else []
        if not queries:
            return [], {}
        specfile = os.path.join(base, 'spec.json')
        with open(specfile, 'w') as f:
            json.dump({'repo': core.REPO, 'roots': roots, 'on_sys_path': [roots[i] for i in on_sys_path], 'queries': queries}, f)
        child = os.path.join(base, 'child.py')
        with open(child, 'w') as f:
            f.write(EXT_CHILD)
        p = subprocess.run([sys.executable, child, specfile], capture_output=True, text=True, timeout=300,
                           env=dict(os.environ, PYTHONDONTWRITEBYTECODE='1'))
        if p.returncode != 0:
            raise core.HarnessError('C07 extension child failed: ' + p.stderr[-400:])
        probs = []
        stats = {'ext-queries': 0, 'ext-found': 0}
        for name, want, got, loaded_before in json.loads(p.stdout):
            stats['ext-queries'] += 1
            want_rel = os.path.relpath(want, base) if want and want.startswith(base) else want
            got_rel = os.path.relpath(got[1], base) if got[1] and got[1].startswith(base) else got[1]
            if want is None:
                if got[0] not in ('ImportError',) and not loaded_before:
                    probs.append(('resolve:compiled:absent-name-resolved', '%s: importlib finds nothing, supp returns %s' % (name, [got[0], got_rel, got[2]])))
                continue
            stats['ext-found'] += 1
            if got[0] == 'ImportError':
                probs.append(('resolve:compiled:ImportError-but-importlib-finds-a-file', '%s: importlib would load %s, supp raises ImportError (roots on sys.path: %s)' % (name, want_rel, on_sys_path)))
            elif got[0].startswith('exc:'):
                probs.append(('resolve:compiled:%s' % got[0], '%s: supp raised' % name))
            elif got[1] != want or (got[0] == 'module' and got[2] != name):
                probs.append(('resolve:compiled:wrong-module', '%s: importlib would load %s, supp analyses %s (module object named %r)' % (name, want_rel, got_rel, got[2])))
        return probs, stats
    finally:
        shutil.rmtree(base, ignore_errors=True)


def w_ext(job):
    from hypothesis import strategies as st
    idx, seed, n = job
    sh = Shard()
    pkgs = [(), ('cpkg',), ('cpkg', 'inner'), ('other',), ('cpkg', 'inner', 'deep')]

    def prop(args):
        layout, on_sys_path, order = args
        layout = [(ri, pkgs[pi], EXT_SOURCES[si]) for ri, pi, si in layout]
        # one file per dotted name and no extension twins of one name in both roots at top level of sys.modules
        seen = set()
        layout = [x for x in layout if not ((x[1], x[2]) in seen or seen.add((x[1], x[2])))]
        probs, stats = ext_case(layout, sorted(set(on_sys_path)), order)
        sh.case([layout, on_sys_path, order], any(p for _, p, _ in layout), {'layout': [[r, '.'.join(p + (s_,))] for r, p, s_ in layout], 'roots_on_sys_path': sorted(set(on_sys_path))})
        for k, v in stats.items():
            sh.count(k, v)
        sh.count('ext-trees')
        for sig, detail in probs:
            if sig not in sh.excluded:
                raise Found(sig, {'kind': 'ext', 'layout': [[r, list(p), s_] for r, p, s_ in layout], 'on_sys_path': sorted(set(on_sys_path)), 'order': list(order)}, detail)
    strat = st.tuples(st.lists(st.tuples(st.integers(0, 1), st.integers(0, len(pkgs) - 1), st.integers(0, len(EXT_SOURCES) - 1)), min_size=1, max_size=4),
                      st.lists(st.integers(0, 1), max_size=2), st.lists(st.integers(0, 20), max_size=5))
    core.hyp_search(sh, prop, strat, seed, n, shrink=True, max_rounds=3)
    return sh.result()


# ---------------------------------------------------------------------------
# modules reached through symbolic links, containing relative imports: the import system anchors a relative import at the package
# the module was imported AS, not at the directory the file really lives in. Reference: CPython importing the tree in a child process

LINK_CHILD = r'''
import sys, json, importlib
sys.path.insert(0, sys.argv[1])
out = {}
for name in sys.argv[2:]:
    try:
        m = importlib.import_module(name)
        out[name] = sorted(n for n in dir(m.thing) if n.startswith('tag_'))
    except Exception as e:
        out[name] = ['<raises>', type(e).__name__]
json.dump(out, sys.stdout)
'''


def link_case(depth, link_dir, level2, order):
    import json
    import subprocess
    from supp.project import Project
    from supp import assistant
    base = tempfile.mkdtemp(prefix='c07l_')
    try:
        root = os.path.join(base, 'src')
        pkgs = {}
        for which in ('alpha', 'beta'):
            parts = [which] + ['sub%d' % i for i in range(depth)]
            d = root
            for p_ in parts:
                d = os.path.join(d, p_)
                os.makedirs(d, exist_ok=True)
                with open(os.path.join(d, '__init__.py'), 'w') as f:
                    f.write('')
            pkgs[which] = ('.'.join(parts), d)
            with open(os.path.join(d, 'util.py'), 'w') as f:
                f.write('class thing(object):\n    tag_%s_util = 1\n' % which)
            with open(os.path.join(os.path.dirname(d) if depth else d, 'up.py'), 'w') as f:
                f.write('class thing(object):\n    tag_%s_up = 1\n' % which)
        # the real file lives in alpha; beta reaches it through a link (the file alone, or its whole directory level)
        adir, bdir = pkgs['alpha'][1], pkgs['beta'][1]
        body = ('from ..up import thing\n' if (level2 and depth) else 'from .util import thing\n') + 'from . import util as sibling\n'
        with open(os.path.join(adir, 'tool.py'), 'w') as f:
            f.write(body)
        if link_dir and depth:
            # beta/.../subN is replaced by a link to alpha's directory of the same level: everything in it is shared
            shutil.rmtree(bdir)
            os.symlink(adir, bdir)
        else:
            os.symlink(os.path.join(adir, 'tool.py'), os.path.join(bdir, 'tool.py'))
        names = [pkgs['alpha'][0] + '.tool', pkgs['beta'][0] + '.tool']
        child = os.path.join(base, 'child.py')
        with open(child, 'w') as f:
            f.write(LINK_CHILD)
        p = subprocess.run([sys.executable, child, root] + names, capture_output=True, text=True, timeout=120, env=dict(os.environ, PYTHONDONTWRITEBYTECODE='1'))
        if p.returncode != 0:
            raise core.HarnessError('C07 link child failed: ' + p.stderr[-300:])
        want = json.loads(p.stdout)
        project = Project([root])
        probs = []
        for i in order:
            name = names[i % 2]
            src = 'from %s import thing\nthing.' % name
            try:
                props = assistant.assist(project, src, (2, 6), os.path.join(base, 'probe.py'))[1]
                got = sorted(x for x in props if x.startswith('tag_'))
            except Exception as e:
                got = ['<raises>', type(e).__name__]
            if got != want[name] and want[name][:1] != ['<raises>']:
                probs.append(('import-statement:relative:through-a-link', '%s (depth %d, %s linked, level %d): the object bound by its relative import shows %s under supp, %s when CPython imports it' % (
                    name, depth, 'directory' if link_dir and depth else 'file', 2 if level2 and depth else 1, got, want[name])))
                break
        return probs
    finally:
        shutil.rmtree(base, ignore_errors=True)


def w_links(job):
    import itertools
    sh = Shard()
    cases = [(d, ld, l2, list(o)) for d in (0, 1, 2) for ld in (False, True) for l2 in (False, True) for o in ((0, 1), (1, 0), (1, 1, 0))]
    for k, case in enumerate(cases):
        if k % 2 != job:
            continue
        probs = link_case(*case)
        sh.case(case, True, {'linked_module': {'depth': case[0], 'directory_link': case[1], 'level2': case[2], 'order': case[3]}})
        sh.count('link-trees')
        for sig, detail in probs:
            if sig not in [v['signature'] for v in sh.violations]:
                sh.violation(sig, {'kind': 'link', 'case': list(case)}, detail)
    return sh.result()


def run(run):
    selftest()
    run.pmap(w_links, [0, 1])
    run.pmap(w_ext, [(i, core.derive_seed(run.seed, 'ext', i), run.pick(12, 150)) for i in range(8)])
    n = run.pick(100, 1500)
    run.pmap(w_trees, [(i, core.derive_seed(run.seed, 'trees', i), n) for i in range(16)])


def replay(spec):
    if spec.get('kind') == 'link':
        c = spec['case']
        return [{'signature': sig, 'case': spec, 'detail': detail} for sig, detail in link_case(c[0], c[1], c[2], c[3])]
    if spec.get('kind') == 'ext':
        probs, _ = ext_case([(r, tuple(p), s_) for r, p, s_ in spec['layout']], spec['on_sys_path'], spec['order'])
        return [{'signature': sig, 'case': spec, 'detail': detail} for sig, detail in probs[:1]]
    if 'tree' in spec and 'roots' not in spec:
        spec = spec['tree']
    probs, stats = run_case(spec)
    seen = set()
    out = []
    for sig, detail in probs:
        if sig not in seen:
            seen.add(sig)
            out.append({'signature': sig, 'case': spec, 'detail': detail})
    return out
