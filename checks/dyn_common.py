"""Shared by C01, C02, C03 (and C04/C17 generators): run a generated program under dynref and ask supp."""
import ast
import builtins
import os
import sys

from vlib import core, dynref, suppview

FIX = suppview.FIXTURES
BUILTIN_NAMES = set(dir(builtins))


def setup_paths():
    if FIX not in sys.path:
        sys.path.insert(0, FIX)


_star_cache = {}


def star_names(module, level, package='fx_pkg'):
    import importlib
    setup_paths()
    key = (module, level, package if level else None)
    if key not in _star_cache:
        m = importlib.import_module(('.' * level) + (module or ''), package if level else None)
        if hasattr(m, '__all__'):
            _star_cache[key] = list(m.__all__)
        else:
            _star_cache[key] = sorted(n for n in vars(m) if not n.startswith('_'))
    return _star_cache[key]


class Dyn(object):
    """dynref facts about one program."""

    def __init__(self, prog, mode, cap, keep_traces=False, lenient=False):
        setup_paths()
        self.src = prog['src']
        self.package = prog.get('package') or False
        self.filename = suppview.filename_for(self.package)
        self.tree = ast.parse(self.src)
        pkgname = ('fx_pkg.inner' if self.package == 2 else 'fx_pkg') if self.package else None
        self.program = dynref.Program(self.src, self.filename, package=pkgname,
                                      modname=pkgname + '.gen_prog' if pkgname else 'gen_prog',
                                      star_names=lambda module, level: star_names(module, level, pkgname or 'fx_pkg'))
        self.ins = self.program.ins
        self.program.lenient = lenient
        self.res = self.program.explore(mode, cap, keep_traces)
        self.exhaustive = self.res['exhaustive']

    def reads(self):
        """yield (rid, (line, col), name, set of (outcome, site))"""
        for rid, (l, c, n) in sorted(self.ins.reads.items()):
            yield rid, (l, c), n, self.res['results'].get(rid, set())

    def site_kind(self, site):
        if site in self.ins.sites:
            return self.ins.sites[site][1]
        return 'untagged' if site == 'untagged' else '?'

    def site_scope(self, site):
        if site in self.ins.sites:
            return self.ins.sites[site][2]
        return None


def in_loop_positions(tree):
    """set of (line, col) of Name loads located inside a loop body of the same scope (used by the #6 classifier)."""
    out = set()

    def walk(node, in_loop):
        for child in ast.iter_child_nodes(node):
            if isinstance(child, (ast.FunctionDef, ast.AsyncFunctionDef, ast.Lambda, ast.ClassDef)):
                walk(child, False)
            elif isinstance(child, (ast.For, ast.While, ast.AsyncFor)):
                # iter/test are evaluated per trip too (while) - count the whole statement
                walk(child, True)
            else:
                if isinstance(child, ast.Name) and isinstance(child.ctx, ast.Load) and in_loop:
                    out.add((child.lineno, child.col_offset))
                walk(child, in_loop)
    walk(tree, False)
    return out


def conditional_walrus_sites(tree):
    """{name: set(sites)} of walrus targets that CPython evaluates only conditionally inside their own
    expression statement: under a non-first and/or operand, a ternary branch, or a comprehension element/condition."""
    out = {}

    def walk(node, cond):
        if isinstance(node, ast.NamedExpr) and cond:
            out.setdefault(node.target.id, set()).add((node.target.lineno, node.target.col_offset))
        if isinstance(node, ast.BoolOp):
            for i, v in enumerate(node.values):
                walk(v, cond or i > 0)
            return
        if isinstance(node, ast.IfExp):
            walk(node.test, cond)
            walk(node.body, True)
            walk(node.orelse, True)
            return
        if isinstance(node, (ast.ListComp, ast.SetComp, ast.DictComp, ast.GeneratorExp)):
            for i, g in enumerate(node.generators):
                walk(g.iter, cond or i > 0)
                for c in g.ifs:
                    walk(c, True)
            for f in ('elt', 'key', 'value'):
                if hasattr(node, f):
                    walk(getattr(node, f), True)
            return
        for child in ast.iter_child_nodes(node):
            walk(child, cond)
    walk(tree, False)
    return out


def split_statement_reads(tree):
    """Positions of reads that are NOT inside a comprehension but come, in the same simple/compound-header
    statement, textually after a comprehension, mapped to the names that statement binds.
    (supp splits the region at a comprehension; bindings of the same statement located later become visible.)"""
    out = {}
    comps = (ast.ListComp, ast.SetComp, ast.DictComp, ast.GeneratorExp)

    def header_nodes(st):
        if isinstance(st, (ast.Assign, ast.AnnAssign, ast.Expr, ast.Return)):
            return [st]
        if isinstance(st, ast.With):
            return list(st.items)
        if isinstance(st, ast.For):
            return [st.target, st.iter]
        return []

    def bound_names(st):
        names = set()
        for n in ast.walk(st) if isinstance(st, (ast.Assign, ast.AnnAssign, ast.Expr, ast.Return)) else []:
            if isinstance(n, ast.Name) and isinstance(n.ctx, ast.Store):
                names.add(n.id)
        if isinstance(st, ast.With):
            for it in st.items:
                for n in ast.walk(it):
                    if isinstance(n, ast.Name) and isinstance(n.ctx, ast.Store):
                        names.add(n.id)
        if isinstance(st, ast.For):
            for n in ast.walk(st.target):
                if isinstance(n, ast.Name):
                    names.add(n.id)
        return names

    for st in ast.walk(tree):
        if not isinstance(st, ast.stmt):
            continue
        hn = header_nodes(st)
        if not hn:
            continue
        comp_pos = []
        inside = set()
        for h in hn:
            for n in ast.walk(h):
                if isinstance(n, comps):
                    comp_pos.append((n.lineno, n.col_offset))
                    for m in ast.walk(n):
                        if isinstance(m, ast.Name):
                            inside.add((m.lineno, m.col_offset))
        if not comp_pos:
            continue
        first = min(comp_pos)
        bn = bound_names(st)
        for h in hn:
            for n in ast.walk(h):
                if isinstance(n, ast.Name) and isinstance(n.ctx, ast.Load):
                    p = (n.lineno, n.col_offset)
                    if p > first and p not in inside and n.id in bn:
                        out[p] = bn
    return out


def in_finally_reached_by_return(tree, pos):
    """pos lies in the finalbody of a try statement whose body / handlers / else contain a return statement of the
    same function (the return jumps straight into the finally block, an edge supp's flow graph does not have)."""
    def has_return(stmts):
        for st in stmts:
            for n in _walk_same_function(st):
                if isinstance(n, ast.Return):
                    return True
        return False
    for node in ast.walk(tree):
        if isinstance(node, ast.Try) and node.finalbody:
            lo = (node.finalbody[0].lineno, node.finalbody[0].col_offset)
            hi = (node.finalbody[-1].end_lineno, node.finalbody[-1].end_col_offset)
            if lo <= pos < hi:
                inner = list(node.body) + list(node.orelse) + [s for h in node.handlers for s in h.body]
                if has_return(inner):
                    return True
    return False


def _walk_same_function(node):
    yield node
    for c in ast.iter_child_nodes(node):
        if isinstance(c, (ast.FunctionDef, ast.AsyncFunctionDef, ast.Lambda, ast.ClassDef)):
            continue
        for x in _walk_same_function(c):
            yield x


def own_iterable_reads(tree):
    """{position of a read: name} for reads of a comprehension variable located BEFORE the generator clause that binds it, inside
    the same comprehension: in that clause's own iterable (`... for c in f(c)`) or in the iterable / a condition of an earlier
    clause (`for i in xs if g(e) for e in ys`). A comprehension is a loop nest: from the second trip of the outer clauses on,
    CPython finds the previous trip's value there."""
    out = {}
    for node in ast.walk(tree):
        if isinstance(node, (ast.ListComp, ast.SetComp, ast.DictComp, ast.GeneratorExp)):
            for i, g in enumerate(node.generators):
                if i == 0:
                    continue          # a target of the first clause is bound before anything else of the comprehension runs again
                tnames = {n.id for n in ast.walk(g.target) if isinstance(n, ast.Name)}
                before = [g.iter]
                for j, h in enumerate(node.generators[:i]):
                    before += list(h.ifs) + ([h.iter] if j else [])     # the first iterable is evaluated outside, once
                for part in before:
                    for n in ast.walk(part):
                        if isinstance(n, ast.Name) and isinstance(n.ctx, ast.Load) and n.id in tnames:
                            out[(n.lineno, n.col_offset)] = n.id
    return out


def previous_trip_walrus_reads(tree):
    """{position of a read: set of positions of walrus targets} - the read stands inside a comprehension (not in its first
    iterable) BEFORE a walrus of the same comprehension that binds the same name (a later condition, the element): from the second
    trip on it reads what the previous trip bound, the same loop-carried visibility as `own_iterable_reads`"""
    out = {}
    for node in ast.walk(tree):
        if isinstance(node, (ast.ListComp, ast.SetComp, ast.DictComp, ast.GeneratorExp)):
            parts = []
            for j, g in enumerate(node.generators):
                parts += ([g.iter] if j else []) + list(g.ifs)
            parts += [getattr(node, 'elt', None), getattr(node, 'key', None), getattr(node, 'value', None)]
            parts = [p_ for p_ in parts if p_ is not None]
            walrus = {}
            for part in parts:
                for n in ast.walk(part):
                    if isinstance(n, ast.NamedExpr):
                        walrus.setdefault(n.target.id, set()).add((n.target.lineno, n.target.col_offset))
            if not walrus:
                continue
            for part in parts:
                for n in ast.walk(part):
                    if isinstance(n, ast.Name) and isinstance(n.ctx, ast.Load) and n.id in walrus:
                        later = {w for w in walrus[n.id] if w > (n.lineno, n.col_offset)}
                        if later:
                            out.setdefault((n.lineno, n.col_offset), set()).update(later)
    return out


def star_before_keyword_walrus(tree):
    """{position of a read inside a *args argument: names} where a keyword argument written BEFORE it in the same call
    contains a walrus binding that name: CPython evaluates *args before the keyword values."""
    out = {}
    for node in ast.walk(tree):
        if isinstance(node, ast.Call):
            for a in node.args:
                if isinstance(a, ast.Starred):
                    apos = (a.lineno, a.col_offset)
                    bound = set()
                    for k in node.keywords:
                        if (k.value.lineno, k.value.col_offset) < apos:
                            for n in ast.walk(k.value):
                                if isinstance(n, ast.NamedExpr):
                                    bound.add(n.target.id)
                    if bound:
                        for n in ast.walk(a):
                            if isinstance(n, ast.Name) and isinstance(n.ctx, ast.Load) and n.id in bound:
                                out[(n.lineno, n.col_offset)] = n.id
    return out


def dead_code_positions(tree):
    """positions (line, col) of every Name/def/class/handler binding located in statements that follow, in the same block, a
    return / raise / break / continue or a compound statement every path of which ends in one (if/else whose arms all leave, a
    loop without break whose else clause leaves, ...): nothing there can execute, so a binding there reaches no read"""
    out = set()

    def mark(stmts):
        for st_ in stmts:
            for n in ast.walk(st_):
                if isinstance(n, ast.Name) and isinstance(n.ctx, ast.Store):
                    out.add((n.lineno, n.col_offset))
                elif isinstance(n, (ast.FunctionDef, ast.AsyncFunctionDef, ast.ClassDef)):
                    out.add(('line', n.lineno))
                elif isinstance(n, ast.alias):
                    out.add(('line', n.lineno))

    def leaves(stmts):
        """every path through the statement list ends in return / raise / break / continue (syntactically certain cases only)"""
        for st_ in stmts:
            if isinstance(st_, (ast.Return, ast.Raise, ast.Break, ast.Continue)):
                return True
            if isinstance(st_, ast.If) and st_.orelse and leaves(st_.body) and leaves(st_.orelse):
                return True
            if isinstance(st_, (ast.While, ast.For)) and st_.orelse and leaves(st_.orelse) \
                    and not any(isinstance(n, ast.Break) for n in ast.walk(st_)):
                return True         # left only by exhaustion, and then the else clause leaves
            if isinstance(st_, ast.With) and leaves(st_.body):
                return True
            if isinstance(st_, ast.Try) and ((st_.finalbody and leaves(st_.finalbody))
                                             or (leaves(st_.body + st_.orelse) and all(leaves(h.body) for h in st_.handlers))):
                return True
        return False

    for node in ast.walk(tree):
        for field in ('body', 'orelse', 'finalbody'):
            stmts = getattr(node, field, None)
            if isinstance(stmts, list) and stmts and isinstance(stmts[0], ast.stmt):
                for i, st_ in enumerate(stmts):
                    if leaves([st_]):
                        mark(stmts[i + 1:])
                        break
    return out


def in_dead_code(dead, site):
    return tuple(site) in dead or ('line', site[0]) in dead
