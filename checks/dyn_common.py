"""Shared by C01, C02, C03 (and C04/C17 generators): run a generated program under dynref and ask supp."""
import ast
import builtins
import os
import sys

from vlib import core, dynref, suppview

FIX = suppview.FIXTURES
BUILTIN_NAMES = set(dir(builtins))


def setup_paths():
    if FIX not in sys.path:
        sys.path.insert(0, FIX)


_star_cache = {}


def star_names(module, level):
    import importlib
    setup_paths()
    key = (module, level)
    if key not in _star_cache:
        m = importlib.import_module(('.' * level) + (module or ''), 'fx_pkg' if level else None)
        if hasattr(m, '__all__'):
            _star_cache[key] = list(m.__all__)
        else:
            _star_cache[key] = sorted(n for n in vars(m) if not n.startswith('_'))
    return _star_cache[key]


class Dyn(object):
    """dynref facts about one program."""

    def __init__(self, prog, mode, cap, keep_traces=False):
        setup_paths()
        self.src = prog['src']
        self.package = bool(prog.get('package'))
        self.filename = suppview.filename_for(self.package)
        self.tree = ast.parse(self.src)
        self.program = dynref.Program(self.src, self.filename, package='fx_pkg' if self.package else None,
                                      modname='fx_pkg.gen_prog' if self.package else 'gen_prog', star_names=star_names)
        self.ins = self.program.ins
        self.res = self.program.explore(mode, cap, keep_traces)
        self.exhaustive = self.res['exhaustive']

    def reads(self):
        """yield (rid, (line, col), name, set of (outcome, site))"""
        for rid, (l, c, n) in sorted(self.ins.reads.items()):
            yield rid, (l, c), n, self.res['results'].get(rid, set())

    def site_kind(self, site):
        if site in self.ins.sites:
            return self.ins.sites[site][1]
        return 'untagged' if site == 'untagged' else '?'

    def site_scope(self, site):
        if site in self.ins.sites:
            return self.ins.sites[site][2]
        return None


def in_loop_positions(tree):
    """set of (line, col) of Name loads located inside a loop body of the same scope (used by the #6 classifier)."""
    out = set()

    def walk(node, in_loop):
        for child in ast.iter_child_nodes(node):
            if isinstance(child, (ast.FunctionDef, ast.AsyncFunctionDef, ast.Lambda, ast.ClassDef)):
                walk(child, False)
            elif isinstance(child, (ast.For, ast.While, ast.AsyncFor)):
                # iter/test are evaluated per trip too (while) - count the whole statement
                walk(child, True)
            else:
                if isinstance(child, ast.Name) and isinstance(child.ctx, ast.Load) and in_loop:
                    out.add((child.lineno, child.col_offset))
                walk(child, in_loop)
    walk(tree, False)
    return out
