"""C05 - names resolve in the scope CPython's compiler assigns them to (differential against symtable)."""
import ast
import os

from vlib import core, corpus, suppview
from vlib.core import Shard, Found
from vlib.ref import symtable_ref

PROPERTY = 'C05'
LEVEL = 'exploration'
RULE = ('every Name read of real files (stdlib sample + repository; the whole stdlib in the thorough tier) and of Hypothesis modules '
        'with function/class/lambda/generator-expression nesting to depth 5, shadowing at every level, global and nonlocal '
        'declarations and class bodies reading outer names. Oracle: symtable.symtable() aligned with the AST; every alternative '
        'supp returns for the read must belong to the owner the compiler chose (module/builtin for globals, the owning function '
        'for locals and closure variables). Class-body reads are compared only for names the class does not bind. Non-trivial '
        'read: inside >= 1 function/class/lambda while an outer scope binds the same identifier, or the symbol is '
        'free/explicitly global; distinct by (text hash, position).')
ASSUMPTIONS = ['Python 3.12 symtable: list/set/dict comprehensions are inlined (targets are locals of the enclosing block), generator expressions are transparent',
               'a read supp does not resolve at all is not a C05 matter (C01)',
               'files whose AST cannot be aligned with the symbol table tree are skipped and counted']


def scope_kind_of(alt):
    from supp.name import RuntimeName
    from supp.scope import SourceScope, FuncScope, ClassScope
    sc = getattr(alt, 'scope', None)
    if isinstance(alt, RuntimeName) and sc is None:
        return ('builtin', None)
    if isinstance(alt, (FuncScope, ClassScope)) and sc is None:
        return ('other', 'unscoped')
    if sc is not None and getattr(sc, 'top', None) is not None and sc.top._global_names.get(getattr(alt, 'name', None)) is alt:
        return ('global', None)        # bound under a `global` declaration
    if isinstance(sc, SourceScope):
        return ('global', None)
    if isinstance(sc, FuncScope):
        return ('func', (sc.name, sc.node.lineno))
    if isinstance(sc, ClassScope):
        return ('class', sc.name)
    return ('other', type(alt).__name__)


def check_source(sh, src, filename, origin):
    """-> list of (signature, detail, pos)"""
    from supp.name import MultiName, UndefinedName
    tree, why = corpus.parse_in_domain(src, filename)
    if tree is None:
        sh.count('skipped:' + why.split(':')[0])
        return []
    proj = suppview.project()
    try:
        s, scope = suppview.analyse(src, filename, proj)
    except RecursionError:
        sh.count('skipped:recursion')
        return []
    except Exception as e:
        sh.count('skipped:analysis-crash-%s' % type(e).__name__)
        return []
    try:
        sm = symtable_ref.align(src, s.tree, filename)
    except symtable_ref.Unsupported:
        sh.count('skipped:syntax-outside-domain')
        return []
    except (symtable_ref.Mismatch, RecursionError) as e:
        sh.count('skipped:symtable-alignment')
        return []
    sh.count('sources')
    out = []
    depth_of = {}
    for node, tab in sm.reads:
        kind = symtable_ref.owner(tab, node.id, sm.parents, sm)
        if id(node) in sm.comp_reads:
            # bound by an enclosing comprehension: compared as a binding of the enclosing real scope
            t = tab
            while symtable_ref.is_comp(t):
                t = sm.parents[t.get_id()]
            kind = {'module': ('global', None), 'class': ('classlocal', t)}.get(t.get_type(), ('local', t))
        if kind[0] == 'classlocal':
            sh.count('reads:classlocal-skipped')
            continue
        if kind[0] == '?':
            sh.count('reads:unknown-skipped')
            continue
        if not hasattr(node, 'flow'):
            sh.count('reads:unvisited')
            continue
        v = node.flow.names_at((node.lineno, node.col_offset)).get(node.id)
        if v is None:
            sh.count('reads:unresolved')
            continue
        alts = v.alt_names if isinstance(v, MultiName) else [v]
        alts = [a for a in alts if not isinstance(a, UndefinedName)]
        nested = tab.get_type() != 'module'
        nontrivial = kind[0] == 'free' or (nested and _outer_binds(tab, node.id, sm.parents)) or (nested and kind[0] == 'global' and _explicit_global(tab, node.id))
        sh.case((core.digest(src), node.lineno, node.col_offset), nontrivial,
                {'origin': origin, 'name': node.id, 'at': (node.lineno, node.col_offset), 'compiler_says': kind[0],
                 'owner': kind[1].get_name() if kind[1] is not None else None})
        sh.count('reads:' + kind[0])
        for a in alts:
            got = scope_kind_of(a)
            if kind[0] == 'global':
                ok = got[0] in ('global', 'builtin')
            else:
                o = kind[1]
                ok = got[0] == 'func' and got[1] == (o.get_name(), o.get_lineno())
            sh.count('alternatives')
            da = tuple(getattr(a, 'declared_at', None) or ())
            if not ok and da in sm.comp_targets:
                lo, hi = sm.comp_targets[da]
                if not (lo <= (node.lineno, node.col_offset) < hi):
                    out.append(('comprehension-variable-visible-after-comprehension',
                                'read %s at %s (compiler: %s) is resolved to the iteration variable at %s of a comprehension that ended at %s' % (
                                    node.id, (node.lineno, node.col_offset), kind[0], da, hi), (node.lineno, node.col_offset)))
                    continue
            if not ok:
                want = 'module/builtin' if kind[0] == 'global' else 'function %s (line %d)' % (kind[1].get_name(), kind[1].get_lineno())
                out.append(('%s-resolved-to-%s' % (kind[0], got[0]),
                            'read %s at %s: compiler says %s of %s; supp lists %s declared at %s in %s' % (
                                node.id, (node.lineno, node.col_offset), kind[0], want, type(a).__name__, getattr(a, 'declared_at', None), got),
                            (node.lineno, node.col_offset)))
    return out


def _outer_binds(tab, name, parents):
    t = parents.get(tab.get_id())
    while t is not None:
        try:
            sy = t.lookup(name)
            if sy.is_local() or sy.is_assigned() or sy.is_imported() or sy.is_parameter():
                return True
        except KeyError:
            pass
        t = parents.get(t.get_id())
    return False


def _explicit_global(tab, name):
    try:
        return tab.lookup(name).is_declared_global()
    except KeyError:
        return False


# ---------------------------------------------------------------------------

def nest_strategy():
    from hypothesis import strategies as st
    POOL = ['x', 'y', 'z']

    @st.composite
    def module(draw):
        lines = []

        def reads(ind, extra=()):
            ns = draw(st.lists(st.sampled_from(POOL + list(extra)), min_size=1, max_size=3))
            return [ind + 'print(%s)' % ', '.join(ns)]

        def body(ind, depth, kind, enclosing_fn_names, params=(), late=None):
            out = []
            declared = set()
            if late is not None:
                # the owner binds this name only AFTER the nested def (the compiler decides ownership over the whole body)
                out.append(ind + 'nonlocal %s' % late)
                out.append(ind + '%s = %s' % (late, draw(st.sampled_from([late + ' + 1', '1', late]))))
                declared.add(late)
            elif kind == 'function':
                k = draw(st.integers(0, 5))
                cand_nl = [n for n in enclosing_fn_names if n not in params]
                if k == 0:
                    g = draw(st.sampled_from([p for p in POOL if p not in params] or ['gg']))
                    out.append(ind + 'global %s' % g)
                    declared.add(g)
                elif k == 1 and cand_nl:
                    g = draw(st.sampled_from(sorted(cand_nl)))
                    out.append(ind + 'nonlocal %s' % g)
                    declared.add(g)
            elif kind == 'class' and draw(st.integers(0, 3)) == 0:
                # a global declaration in a class body (matters when the class is nested in a function that binds the name)
                g = draw(st.sampled_from(POOL))
                out.append(ind + 'global %s' % g)
                declared.add(g)
                out.append(ind + 'cg_%d = %s' % (depth, g))
            bound_here = set(params)
            n = draw(st.integers(1, 4))
            for _ in range(n):
                c = draw(st.integers(0, 9))
                if c <= 2:
                    nm = draw(st.sampled_from(POOL))
                    # every kind of binder, so that global / nonlocal declarations meet def, class and import too
                    form = draw(st.sampled_from(['%s = 1', '%s = 1', '%s = 1', 'def %s(): return 0', 'class %s: pass', 'import os as %s',
                                                 'from os import path as %s', '%s: int = 2']))
                    out.append(ind + form % nm)
                    bound_here.add(nm)
                elif c == 3:
                    out += reads(ind)
                elif c == 4 and depth < 5:
                    ps = draw(st.lists(st.sampled_from(POOL), max_size=2, unique=True))
                    fn = 'f%d' % depth
                    # every parameter kind binds a local: positional-only, keyword-only, *args, **kwargs, with defaults
                    style = draw(st.sampled_from(['plain', 'plain', 'posonly', 'kwonly', 'star', 'kwstar', 'default']))
                    if not ps or style == 'plain':
                        sig = ', '.join(ps)
                    elif style == 'posonly':
                        sig = ps[0] + ', /' + ''.join(', ' + q for q in ps[1:])
                    elif style == 'kwonly':
                        sig = '*, ' + ', '.join(ps)
                    elif style == 'star':
                        sig = ', '.join(ps[:-1] + ['*' + ps[-1]])
                    elif style == 'kwstar':
                        sig = ', '.join(ps[:-1] + ['**' + ps[-1]])
                    else:
                        sig = ', '.join('%s=%s' % (q, draw(st.sampled_from(POOL + ['0']))) for q in ps)
                    out.append(ind + 'def %s(%s):' % (fn, sig))
                    fn_names = set(enclosing_fn_names)
                    if kind == 'function':
                        fn_names |= bound_here - declared
                    late_cands = [q for q in POOL if q not in bound_here and q not in declared and q not in ps and q not in fn_names]
                    late = draw(st.sampled_from(late_cands)) if kind == 'function' and late_cands and draw(st.integers(0, 3)) == 0 else None
                    out += body(ind + '    ', depth + 1, 'function', fn_names, tuple(ps), late=late)
                    if late is not None:
                        out.append(ind + '%s = 0' % late)
                        bound_here.add(late)
                    if draw(st.booleans()):
                        out.append(ind + '%s(%s)' % (fn, ', '.join('0' for _ in ps)))
                elif c == 5 and depth < 5:
                    out.append(ind + 'class C%d:' % depth)
                    fn_names = set(enclosing_fn_names)
                    if kind == 'function':
                        fn_names |= bound_here - declared
                    out += body(ind + '    ', depth + 1, 'class', fn_names)
                elif c == 6 and draw(st.booleans()) and depth < 5:
                    # siblings without locals of their own: a pure reader and one that only declares a global
                    g = draw(st.sampled_from(POOL))
                    order = draw(st.booleans())
                    reader = [ind + 'def rd%d():' % depth, ind + '    return (%s, %s)' % (g, draw(st.sampled_from(POOL)))]
                    glob = [ind + 'def gl%d():' % depth, ind + '    global %s' % g, ind + '    return %s' % g]
                    out += (reader + glob) if order else (glob + reader)
                elif c == 6:
                    p = draw(st.sampled_from(POOL))
                    q = draw(st.sampled_from(POOL))
                    lp = draw(st.sampled_from(['%s', '%s, /', '*, %s', '*%s', '**%s', '%s=0'])) % p
                    out.append(ind + 'l%d = lambda %s: (%s, %s, (lambda %s: %s + %s))' % (depth, lp, p, q, q, p, draw(st.sampled_from(POOL))))
                elif c == 7:
                    v = draw(st.sampled_from(POOL))
                    w = draw(st.sampled_from(POOL))
                    form = draw(st.sampled_from(['g%d = list((%s, %s) for %s in range(2))', 'g%d = [(%s, %s) for %s in range(2)]',
                                                 'g%d = {%s: %s for %s in range(2)}', 'g%d = list((%s, %s) for %s in range(2) if %s)']))
                    args = (depth, v, w, v) if form.count('%s') == 3 else (depth, v, w, v, w)
                    out.append(ind + form % args)
                elif c == 8 and draw(st.booleans()) and kind != 'class':
                    # a walrus inside a comprehension binds in the enclosing function (PEP 572), its iteration variable does not
                    v = draw(st.sampled_from(POOL))
                    w = draw(st.sampled_from([p_ for p_ in POOL if p_ != v]))
                    form = draw(st.sampled_from(['w%d = [%s for %s in range(2) if (%s := %s)]', 'w%d = any((%s := %s) for %s in range(2))']))
                    if form.count('%s') == 4:
                        out.append(ind + form % (depth, w, v, w, v))
                    else:
                        out.append(ind + form % (depth, w, v, v))
                    if w not in declared:
                        bound_here.add(w)
                elif c == 8:
                    nm = draw(st.sampled_from(POOL))
                    out.append(ind + 'for %s in range(1):' % nm)
                    out += reads(ind + '    ')
                    bound_here.add(nm)
                else:
                    out += reads(ind)
            out += reads(ind)
            return out
        lines.append('x = y = z = 0')
        lines += body('', 0, 'module', set())
        return '\n'.join(lines) + '\n'
    return module()


def w_files(job):
    files, seed = job
    sh = Shard()
    for path in files:
        src = corpus.read(path)
        if src is None:
            continue
        probs = check_source(sh, src, path, os.path.relpath(path, '/'))
        first = {}
        for sig, detail, pos in probs:
            sh.count('bad:' + sig)
            if any(pred(sig) for pred in KNOWN_SIGS.values()):
                sh.known_hit([k for k, pred in KNOWN_SIGS.items() if pred(sig)][0], {'filename': path, 'detail': detail})
                continue
            first.setdefault(sig, (detail, pos))
        for sig, (detail, pos) in first.items():
            def still(cand, sig=sig, path=path):
                return any(s == sig for s, d, p in check_source(Shard(), cand, path, 'min'))
            small = src
            try:
                if len(src) < 60000:
                    small = core.minimise_lines(src, still, max_steps=200)
                    detail = [d for s, d, p in check_source(Shard(), small, path, 'min') if s == sig][0]
            except Exception:
                pass
            sh.violation(sig, {'src': small, 'filename': path}, detail)
    return sh.result()


def w_nested(job):
    idx, seed, n = job
    sh = Shard()
    fn = suppview.filename_for(False)

    def prop(src):
        try:
            compile(src, '<c05>', 'exec')
        except SyntaxError as e:
            sh.count('discard:syntax')
            return
        sh.count('generated-modules')
        for sig, detail, pos in check_source(sh, src, fn, 'generated'):
            hit = [k for k, pred in KNOWN_SIGS.items() if pred(sig)]
            if hit:
                sh.known_hit(hit[0], {'src': src, 'detail': detail})
                continue
            if sig not in sh.excluded:
                raise Found(sig, {'src': src, 'filename': fn}, detail)

    def minimise(f):
        def still(src):
            compile(src, '<m>', 'exec')
            return any(s == f.signature for s, d, p in check_source(Shard(), src, fn, 'min'))
        small = core.minimise_lines(f.case['src'], still)
        det = [d for s, d, p in check_source(Shard(), small, fn, 'min') if s == f.signature]
        return Found(f.signature, {'src': small, 'filename': fn}, det[0] if det else f.detail)
    core.hyp_search(sh, prop, nest_strategy(), seed, n, shrink=False, max_rounds=5, minimise=minimise)
    return sh.result()


def run(run):
    if run.quick:
        files = corpus.sample(core.derive_seed(run.seed, 'c05f'), 170, include_repo=True, max_bytes=120000)
    else:
        files = corpus.repo_files() + corpus.stdlib_files()
        run.extra['exhaustive'] = True
        run.extra['exhaustive_scope'] = 'corpus part: every parseable in-domain file of the installed stdlib and the repository; generated part sampled'
    run.pmap(w_files, [(s, i) for i, s in enumerate(corpus.shards(files, 16))])
    run.pmap(w_nested, [(i, core.derive_seed(run.seed, 'c05n', i), run.pick(40, 1500)) for i in range(16)])


def replay(case):
    fn = case.get('filename') or suppview.filename_for(False)
    seen, out = set(), []
    for sig, detail, pos in check_source(Shard(), case['src'], fn, 'replay'):
        if sig not in seen:
            seen.add(sig)
            out.append({'signature': sig, 'case': case, 'detail': detail})
    return out


KNOWN_SIGS = {'C05-comprehension-variable-leak': lambda sig: sig == 'comprehension-variable-visible-after-comprehension'}
_listed = {e['id'] for e in core.load_known(PROPERTY) if e.get('status') == 'finding'}
KNOWN_SIGS = {k: v for k, v in KNOWN_SIGS.items() if k in _listed}
KNOWN = {fid: (lambda v, p=pred: p(v['signature'])) for fid, pred in KNOWN_SIGS.items()}
