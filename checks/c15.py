"""C15 - remote calls are transparent and failures are isolated.

A Hypothesis rule-based state machine drives a REAL server subprocess through supp.remote.Environment and, in
lockstep, an in-process mirror (the same request evaluated on an identical Project in this process).
Rules: configure / assist / location / lint / eval with generated arguments, fault rules (unknown method, wrong
arity, eval that raises, eval returning an unserialisable value, request on a text that does not parse) and a
payload rule (0 bytes .. several MiB).  Every reply must equal the mirror's (tuples arriving as lists), every
failing request must raise on the client with the server-side message, and after every fault the next request
is answered and the server is still alive.
"""
import os
import shutil
import tempfile

from vlib import core, suppview
from vlib.core import Shard

PROPERTY = 'C15'
LEVEL = 'exploration'
RULE = ('Hypothesis RuleBasedStateMachine, one real server subprocess per generated sequence (quick: 12 steps, thorough: 40); '
        'request arguments: small programs with cursors on names/attributes/imports, C04 three-module project files, texts that '
        'do not parse, payloads from 0 bytes to 4 MiB (comment-only sources, eval strings); fault rules injected at any index; plus fixed '
        'sequences around a request that keeps the server busy for 6 s (thorough: 12 s, and a real 120 000-line source). '
        'Oracle: in-process mirror on an identical Project + server-side message for failures + liveness of the child after '
        'each fault. Non-trivial sequence: >= 1 fault followed by >= 1 successful request, or a payload >= 64 KiB; distinct by '
        'operation sequence.')
ASSUMPTIONS = ['the mirror evaluates requests with supp.server.Server methods / supp.assistant / supp.linter in this process on a Project with the same sources',
               'SUPP_LOG_LEVEL=100 is passed to the child to keep its stderr quiet; order inside alternative lists is not normalised (C17 holds on this tree)']

SNIPPETS = [
    ('import os\nos.pa', (2, 5)),
    ('import m1\nm1.val.ba', (2, 9)),
    ('from m1 import Mid\nMid().mm', (2, 8)),
    ('x = 1\nif x:\n    y = 2\nelse:\n    y = 3\nprint(y)\n', (6, 7)),
    ('from m2 import *\nBase().bm', (2, 9)),
    ('import json\njson.lo', (2, 7)),
    ('def f(a, b):\n    return a\nf(1, 2).', (3, 8)),
    ('', (1, 0)),
    ('class A:\n    def m(self):\n        self.q = 1\n        return self.', (4, 20)),
    ('import m0\nm0.w.bi', (2, 7)),
    # names of supp's own modules: the server is started as a script inside the package directory, which must not
    # turn them into top-level modules of the user's project
    ('import merged_dict\nmerged_dict.', (2, 12)),
    ('import evaluator, linter\nevaluator.Ev', (2, 12)),
    ('import umsgpack\numsgpack.', (2, 9)),
]
BROKEN = ['def f(:\n', 'x = (1,\n', 'class\n', 'import os\nos.path.(\n', 'if x\n    pass\n']


# (source, message the caller must get): exceptions that do not derive from Exception, and one that cannot be printed
BASE_RAISES = [('raise KeyboardInterrupt("kb")', 'kb'), ('raise GeneratorExit()', ''), ('raise BaseException("base")', 'base'),
               ('class Stop(BaseException):\n    pass\nraise Stop("own")', 'own'),
               ('class E(Exception):\n    def __str__(self):\n        raise RuntimeError("no")\nraise E()', '<exception str() failed>')]

# function bodies that keep state in their own module namespace: a fresh evaluation always yields the same value
STATEFUL = ['global calls\ntry:\n    calls += 1\nexcept NameError:\n    calls = 1\nreturn calls',
            'seen = globals().setdefault("seen", [])\nseen.append(len(seen))\nreturn seen',
            'g = globals()\ng["n"] = g.get("n", 0) + 1\nreturn [g["n"], sorted(k for k in g if not k.startswith("__"))]']


def fresh_eval(src):
    """value of `src` run as the body of a function in a brand-new namespace (built through ast, not through Server.eval)"""
    import ast
    fn = ast.parse('def boo():\n    pass\nresult = boo()')
    fn.body[0].body = ast.parse(src).body
    ast.fix_missing_locations(fn)
    ns = {}
    exec(compile(fn, '<string>', 'exec'), ns)
    return ns['result']


def norm(x):
    """what a value looks like after a msgpack round trip: tuples become lists"""
    if isinstance(x, (list, tuple)):
        return [norm(i) for i in x]
    if isinstance(x, dict):
        return {norm_key(k): norm(v) for k, v in x.items()}
    return x


def norm_key(k):
    return tuple(norm_key(i) for i in k) if isinstance(k, (list, tuple)) else k


REPLY_TIMEOUT = 150        # seconds; the slowest request of any tier takes < 20 s on this machine


class Unserialisable(object):
    pass


def make_machine(sh, found, steps_budget, server_env=None):
    import hypothesis
    from hypothesis import strategies as st
    from hypothesis.stateful import RuleBasedStateMachine, rule, precondition, initialize
    from supp.remote import Environment
    from supp import server as supp_server
    from . import c04

    class Remote(RuleBasedStateMachine):
        def __init__(self):
            super().__init__()
            self.root = tempfile.mkdtemp(prefix='c15_')
            c04.write_mods(self.root)
            with open(os.path.join(self.root, 'fx_mod.py'), 'w') as f:
                f.write('fa = "the copy in the project root"\nonly_in_project_root = 1\n')
            self.env = Environment(env=dict(server_env or {'SUPP_LOG_LEVEL': '100'}, PYTHONPATH=core.REPO))
            self.reply_timeout = REPLY_TIMEOUT
            self.mirror = supp_server.Server(None)
            self.ops = []
            found['cur'] = self.ops
            self.configured = False
            self.faults = 0
            self.ok_after_fault = 0
            self.big = False
            self.token = 0

        # -- helpers
        def call(self, name, *args, **kwargs):
            """one client call under a watchdog: "every request is answered" - a server that stays alive but never replies
            (e.g. blocked on a log pipe nobody reads) is a violation, not a hang of the harness"""
            import threading
            box = {}

            def work():
                try:
                    # through the public client method where there is one (configure, lint, assist, location, eval)
                    public = getattr(type(self.env), name, None) if name in ('configure', 'lint', 'assist', 'location', 'eval') else None
                    if public is not None and len(args) >= (2 if name in ('lint',) else 1):
                        box['r'] = public(self.env, *args, **kwargs)
                    else:
                        box['r'] = self.env._call(name, *args, **kwargs)
                except BaseException as e:      # noqa: handed to the caller below
                    box['e'] = e
            t = threading.Thread(target=work, daemon=True)
            t.start()
            t.join(self.reply_timeout)
            if t.is_alive():
                proc = getattr(self.env, 'proc', None)
                state = 'alive' if (proc is not None and proc.poll() is None) else 'dead'
                try:
                    proc.kill()
                except Exception:
                    pass
                t.join(10)
                self.fail('no-reply:%s' % name, 'no reply within %d s to %s (request %d of the sequence); server process %s' % (self.reply_timeout, name, len(self.ops), state))
            if 'e' in box:
                raise box['e']
            return box['r']

        def both(self, name, *args, **kwargs):
            """send through the client and evaluate on the mirror; compare"""
            self.ops.append((name, _brief(args)))
            # expected outcome computed WITHOUT the dispatcher under test (Server.process): call the method directly
            try:
                want, want_ok = getattr(self.mirror, name)(*args, **kwargs), True
            except Exception as e:
                want, want_ok = (type(e).__name__, str(e)), False
            if want_ok:
                try:
                    from supp.umsgpack import dumps
                    dumps((want, True))
                except BaseException:
                    want, want_ok = ('SerializeError', 'Serialize error'), False
            try:
                got = self.call(name, *args, **kwargs)
                got_ok = True
            except AssertionError:
                raise
            except Exception as e:
                got, got_ok = str(e), False
            if want_ok != got_ok:
                self.fail('outcome-mismatch:%s' % name, 'client %s (%r), mirror %s (%r)' % ('ok' if got_ok else 'raised', _brief(got), 'ok' if want_ok else 'raises', _brief(want)))
            if want_ok:
                if norm(want) != got:
                    self.fail('reply-differs:%s' % name, 'client %r, in-process %r' % (_brief(got), _brief(norm(want))))
                if self.faults:
                    self.ok_after_fault += 1
            else:
                if got != want[1]:
                    self.fail('error-message-differs:%s' % name, 'client raised %r, server-side message %r' % (got, want[1]))
                self.faults += 1
            if self.env.proc.poll() is not None:
                self.fail('server-died:%s' % name, 'child exit status %r after %s' % (self.env.proc.poll(), name))

        def fail(self, sig, detail):
            found['f'] = (sig, [list(o) for o in self.ops], detail)
            raise AssertionError(sig)

        # -- rules
        def do_configure(self, cfg):
            """the mirror gets a NEW Project built by the harness (not by Server.configure, which is under test)"""
            from supp.project import Project
            self.ops.append(('configure', _brief(cfg)))
            try:
                got = self.call('configure', cfg)
            except AssertionError:
                raise
            except Exception as e:
                self.fail('outcome-mismatch:configure', 'configure raised %r on the client' % (e,))
            self.mirror.project = Project(list(cfg['sources']), dyn_modules=cfg.get('dyn_modules'))
            if got is not None:
                self.fail('reply-differs:configure', 'configure returned %r' % (got,))
            if self.faults:
                self.ok_after_fault += 1

        @initialize()
        def configure_first(self):
            self.do_configure({'sources': [self.root]})
            self.configured = True

        @rule(extra=st.booleans(), dyn=st.sampled_from([None, None, ['m2'], ['m2', 'pk.b'], ['json']]), swap=st.booleans(), relative=st.booleans())
        def configure(self, extra, dyn, swap, relative):
            # the same set of roots in either order (fx_mod exists in both: which one wins depends on the order), the project root
            # also written relative to the working directory (which client, server and mirror share)
            root = os.path.relpath(self.root) if relative else self.root
            roots = [root] + ([suppview.FIXTURES] if extra else [])
            cfg = {'sources': roots[::-1] if swap else roots}
            if dyn is not None:
                cfg['dyn_modules'] = dyn
            self.do_configure(cfg)
            self.shadowed('assist')

        @rule(which=st.sampled_from(['assist', 'location']))
        def shadowed(self, which):
            """a module that exists in both roots: the answer follows the configured order"""
            src = 'import fx_mod\nfx_mod.fa'
            self.both(which, src, (2, 7) if which == 'assist' else (2, 9), os.path.join(self.root, 'buffer.py'))

        @rule(mod=st.sampled_from(['json', 'm2']))
        def reconfigure_dyn_roundtrip(self, mod):
            """touch a module, make it a dyn (runtime-imported) module with the SAME sources, touch it again, and back"""
            src, pos = ('import json\njson.lo', (2, 7)) if mod == 'json' else ('import m2\nm2.Ba', (2, 5))
            fn = os.path.join(self.root, 'buffer.py')
            self.both('assist', src, pos, fn)
            self.do_configure({'sources': [self.root], 'dyn_modules': [mod]})
            self.both('assist', src, pos, fn)
            self.both('location', src, pos, fn)
            self.do_configure({'sources': [self.root]})
            self.both('assist', src, pos, fn)

        @rule(i=st.integers(0, len(SNIPPETS) - 1), which=st.sampled_from(['assist', 'location']))
        def cursor(self, i, which):
            src, pos = SNIPPETS[i]
            self.both(which, src, pos, os.path.join(self.root, 'buffer.py'))

        @rule(mod=st.sampled_from(sorted(m for m in c04.MODS if c04.HPOS_CODE[m])), pi=st.integers(0, 200), which=st.sampled_from(['assist', 'location']))
        def project_cursor(self, mod, pi, which):
            pos = c04.HPOS_CODE[mod][pi % len(c04.HPOS_CODE[mod])]
            self.both(which, c04.MODS[mod], pos, os.path.join(self.root, mod + '.py'))

        @rule(mod=st.sampled_from(sorted(c04.MODS)))
        def lint(self, mod):
            self.both('lint', c04.MODS[mod], os.path.join(self.root, mod + '.py'))

        @rule()
        def eval_token(self):
            self.token += 1
            self.both('eval', 'return [%d, "%s", (1, 2), {"k": None}]' % (self.token, 'tok%d' % self.token))

        @rule(n=st.sampled_from([0, 1, 15, 16, 31, 32, 255, 256, 65535, 65536, 70000, 1 << 20, 4 << 20]))
        def payload_lint(self, n):
            if n >= 65536:
                self.big = True
            self.both('lint', '#' + 'x' * max(0, n - 1) if n else '', os.path.join(self.root, 'big.py'))

        @rule(n=st.sampled_from([0, 31, 32, 255, 256, 65535, 65536, 1 << 20]))
        def payload_eval(self, n):
            if n >= 65536:
                self.big = True
            self.both('eval', 'return "y" * %d' % n)

        @rule(n=st.sampled_from([15, 16, 17, 65535, 65536]))
        def payload_list(self, n):
            self.both('eval', 'return list(range(%d))' % n)

        # -- faults
        @rule(name=st.sampled_from(['nosuch', 'lint_', '__init__', 'run_', '', 'Assist']))
        def unknown_method(self, name):
            self.both(name)

        @rule(which=st.sampled_from(['lint', 'assist', 'location', 'eval', 'configure']))
        def wrong_arity(self, which):
            self.both(which)

        @rule(msg=st.sampled_from(['boom', '', 'é unicode', 'x' * 300]))
        def eval_raises(self, msg):
            self.both('eval', 'raise ValueError(%r)' % msg)

        def expect_raise(self, tag, src, want):
            """a request whose code raises something the mirror cannot run without ending the harness: the expected message is
            written down here"""
            self.ops.append((tag, _brief(src)))
            try:
                got = self.call('eval', src)
                self.fail('outcome-mismatch:%s' % tag, 'client got a result %r for a request that raised on the server' % (got,))
            except AssertionError:
                raise
            except Exception as e:
                if str(e) != want:
                    self.fail('error-message-differs:%s' % tag, 'client raised %r, server-side message %r' % (str(e), want))
            self.faults += 1
            if self.env.proc.poll() is not None:
                self.fail('server-died:%s' % tag, 'child exit status %r after %s' % (self.env.proc.poll(), tag))

        @rule(code=st.sampled_from([3, 0, 'bye']))
        def eval_exits(self, code):
            """code run for a request calls sys.exit(): a request that raises like any other"""
            self.expect_raise('eval-exit', 'import sys\nsys.exit(%r)' % (code,), str(code))

        @rule(k=st.integers(0, len(BASE_RAISES) - 1))
        def eval_raises_base(self, k):
            """exceptions outside the Exception hierarchy, and one whose own __str__ fails"""
            src, want = BASE_RAISES[k]
            self.expect_raise('eval-raises-base', src, want)

        @rule(k=st.integers(0, len(STATEFUL) - 1), times=st.integers(1, 3))
        def eval_same_source_again(self, k, times):
            """the same source text sent repeatedly: every evaluation starts from a fresh namespace (the expected value is what a
            fresh function body yields in the harness, not what the server module under test computes)"""
            src = STATEFUL[k]
            for _ in range(times):
                self.ops.append(('eval-again', _brief(src)))
                want = fresh_eval(src)
                try:
                    got = self.call('eval', src)
                except AssertionError:
                    raise
                except Exception as e:
                    self.fail('outcome-mismatch:eval-again', 'client raised %r, a fresh evaluation yields %r' % (e, want))
                if got != norm(want):
                    self.fail('reply-differs:eval-again', 'client %r, a fresh evaluation of the same function body yields %r' % (_brief(got), _brief(norm(want))))
                if self.faults:
                    self.ok_after_fault += 1

        @rule()
        def eval_unserialisable(self):
            self.both('eval', 'return object()')

        @rule()
        def eval_unserialisable_nested(self):
            self.both('eval', 'return {"a": [1, {2, 3}]}')

        @rule(src=st.sampled_from(['return "\\ud800"', 'a = []\na.append(a)\nreturn a', 'return {1: "\\udfff"}',
                                   'return 2 ** 70', 'return [1, -2 ** 64]', 'return 1.5, float("inf"), -0.0']))
        def eval_hard_to_serialise(self, src):
            # values whose packing fails in other ways than "unsupported type" (encoding error, recursion, overflow)
            self.both('eval', src)

        @rule(i=st.integers(0, len(BROKEN) - 1), which=st.sampled_from(['assist', 'location', 'lint']))
        def syntax_error(self, i, which):
            src = BROKEN[i]
            if which == 'lint':
                self.both('lint', src, os.path.join(self.root, 'buffer.py'))
            else:
                self.both(which, src, (1, 3), os.path.join(self.root, 'buffer.py'))

        @rule()
        def bad_position(self):
            self.both('assist', 'x = 1\n', (7, 0), os.path.join(self.root, 'buffer.py'))

        @rule()
        def kwargs_call(self):
            self.ops.append(('lint-kwargs', ''))
            want = self.mirror.lint('x = 1\n', os.path.join(self.root, 'buffer.py'), syntax_only=True)
            try:
                got = self.env.lint('x = 1\n', os.path.join(self.root, 'buffer.py'), syntax_only=True)
            except Exception as e:
                self.fail('outcome-mismatch:lint-kwargs', 'client raised %r' % (e,))
            if norm(want) != got:
                self.fail('reply-differs:lint-kwargs', '%r vs %r' % (got, want))

        def teardown(self):
            nontrivial = (self.faults >= 1 and self.ok_after_fault >= 1) or self.big
            sh.case(tuple(map(tuple, [(o[0], str(o[1])) for o in self.ops])), nontrivial,
                    {'sequence': [o[0] for o in self.ops][:20], 'faults': self.faults, 'ok_after_fault': self.ok_after_fault, 'big_payload': self.big})
            sh.count('sequences')
            sh.count('requests', len(self.ops))
            sh.count('faults', self.faults)
            try:
                proc = self.env.proc
                self.env.close()
                try:
                    proc.wait(timeout=10)
                except Exception:
                    sh.count('server-did-not-exit-after-close')     # C16's subject
                    proc.kill()
            except Exception:
                try:
                    self.env.proc.kill()
                except Exception:
                    pass
            shutil.rmtree(self.root, ignore_errors=True)

    return Remote


def _brief(x):
    s = repr(x)
    return s if len(s) < 200 else s[:200] + '...(%d chars)' % len(s)


def w_machine(job):
    import hypothesis
    from hypothesis.stateful import run_state_machine_as_test
    idx, seed, n, steps = job
    sh = Shard()
    found = {}
    Machine = make_machine(sh, found, steps)
    settings = core.hyp_settings(n, shrink=(steps > 12), stateful_step_count=steps)
    try:
        run_state_machine_as_test(hypothesis.seed(seed)(Machine), settings=settings)
    except AssertionError:
        sig, ops, detail = found['f']
        sh.violation(sig, {'ops': ops}, detail)
    except Exception as e:
        if 'f' in found:
            sig, ops, detail = found['f']
            sh.violation(sig, {'ops': ops}, detail)
        else:
            import traceback
            frames = [f.filename for f in traceback.extract_tb(e.__traceback__)]
            if not any(f.startswith(os.path.join(core.REPO, 'supp') + os.sep) for f in frames):
                raise           # raised by the harness itself: a harness error (exit 2), never a violation
            # an exception nobody expected escaped from the client code (e.g. a reply that cannot be decoded)
            sh.violation('client-raised-unexpectedly:%s' % type(e).__name__, {'ops': [list(o) for o in found.get('cur', [])]}, repr(e))
    return sh.result()


def w_slow(job):
    """requests that keep the server busy for a while (a slow evaluation, a real source of several MiB) are answered like any
    other, and the requests after them still pair with their replies"""
    seconds, big_lines = job
    sh = Shard()
    found = {}
    Machine = make_machine(sh, found, 50)
    m = Machine()
    try:
        try:
            m.configure_first()
            m.eval_token()
            m.both('eval', 'import time\ntime.sleep(%s)\nreturn "slow"' % seconds)
            m.eval_token()
            m.both('assist', SNIPPETS[0][0], SNIPPETS[0][1], os.path.join(m.root, 'buffer.py'))
            m.eval_raises('boom')
            m.eval_token()
            if big_lines:
                src = ''.join('v%d = [%d, "text", None]\n' % (i, i) for i in range(big_lines))
                m.big = True
                m.both('lint', src, os.path.join(m.root, 'big.py'))
                m.eval_token()
                m.both('assist', src + 'v1', (big_lines + 1, 2), os.path.join(m.root, 'big.py'))
                m.eval_token()
            m.faults += 1
            m.ok_after_fault += 1
            sh.count('slow-request-sequences')
        except AssertionError:
            sig, ops, detail = found['f']
            sh.violation(sig + ':after-slow-request', {'ops': ops, 'slow': [seconds, big_lines]}, detail)
    finally:
        m.teardown()
    return sh.result()


def w_logging(job):
    """the server with its DEFAULT logging (the traceback of every failing request goes to its stderr): many failing requests,
    and failing requests with very large messages, are answered like any other and so is everything after them"""
    n_fail, big = job
    sh = Shard()
    found = {}
    Machine = make_machine(sh, found, 50, server_env={'SUPP_VERIF_DEFAULT_LOGGING': '1'})
    devnull = os.open(os.devnull, os.O_WRONLY)
    saved = os.dup(2)
    m = Machine()
    m.reply_timeout = 60
    try:
        try:
            os.dup2(devnull, 2)         # the child inherits this stderr; the harness's own is restored right after the launch
            try:
                m.configure_first()
            finally:
                os.dup2(saved, 2)
            m.eval_token()
            for i in range(n_fail):
                m.eval_raises('boom')
                if i % 3 == 0:
                    m.unknown_method('nosuch')
                if i % 10 == 0:
                    m.eval_token()
            if big:
                m.both('eval', 'raise ValueError("x" * %d)' % big)
                m.eval_token()
                m.both('assist', SNIPPETS[0][0], SNIPPETS[0][1], os.path.join(m.root, 'buffer.py'))
            sh.count('default-logging-sequences')
        except AssertionError:
            sig, ops, detail = found['f']
            sh.violation(sig + ':default-logging', {'ops': ops[-6:], 'logging': [n_fail, big]}, detail)
    finally:
        os.close(saved)
        os.close(devnull)
        m.teardown()
    return sh.result()


def w_dispatch(job):
    if job[0] == 'logging':
        return w_logging(job[1:])
    return w_slow(job[1:]) if job[0] == 'slow' else w_machine(job[1:])


def run(run):
    slow = [(6, 0)] if run.quick else [(6, 0), (12, 0), (1, 120000)]
    jobs = [('slow',) + j for j in slow]
    jobs += [('logging',) + j for j in ([(200, 0), (3, 200000)] if run.quick else [(200, 0), (3, 200000), (1500, 0), (10, 2 << 20)])]
    jobs += [('machine', i, core.derive_seed(run.seed, 'c15', i), run.pick(25, 150), run.pick(12, 40)) for i in range(run.pick(8, 16))]
    run.pmap(w_dispatch, jobs, procs=run.pick(11, 16))


def replay(case):
    """re-drive the recorded operation names against a fresh server (arguments are re-derived from the rule tables)"""
    sh = Shard()
    found = {}
    Machine = make_machine(sh, found, 50)
    if case.get('slow'):
        r = w_slow(tuple(case['slow']))
        return [{'signature': v['signature'], 'case': case, 'detail': v['detail']} for v in r['violations']]
    if case.get('logging'):
        r = w_logging(tuple(case['logging']))
        return [{'signature': v['signature'], 'case': case, 'detail': v['detail']} for v in r['violations']]
    m = Machine()
    out = []
    try:
        m.configure_first()
        for name, brief in case['ops'][1:]:
            try:
                if name in ('assist', 'location'):
                    for i, (src, pos) in enumerate(SNIPPETS):
                        m.both(name, src, pos, os.path.join(m.root, 'buffer.py'))
                elif name == 'lint':
                    m.payload_lint(65536)
                    m.lint('m0')
                elif name == 'eval':
                    m.eval_token()
                    m.eval_hard_to_serialise('return "\\ud800"')
                    m.eval_hard_to_serialise('a = []\na.append(a)\nreturn a')
                    m.eval_raises('boom')
                    m.eval_unserialisable()
                    m.payload_eval(65536)
                elif name == 'eval-exit':
                    m.eval_exits(3)
                    m.eval_token()
                elif name == 'eval-raises-base':
                    for k in range(len(BASE_RAISES)):
                        m.eval_raises_base(k)
                        m.eval_token()
                elif name == 'eval-again':
                    for k in range(len(STATEFUL)):
                        m.eval_same_source_again(k, 3)
                elif name == 'configure':
                    m.configure(True, ['m2'], True, True)
                    for i, (src, pos) in enumerate(SNIPPETS):
                        m.both('assist', src, pos, os.path.join(m.root, 'buffer.py'))
                    m.configure(True, None, False, False)
                else:
                    m.both(name)
            except AssertionError:
                sig, ops, detail = found['f']
                out.append({'signature': sig, 'case': case, 'detail': detail})
                break
    finally:
        m.teardown()
    return out


KNOWN = {}
