"""C17 - deterministic output: same elements in the same order across repeated calls, fresh processes and hash seeds."""
import ast
import json
import os
import random
import shutil
import subprocess
import sys
import tempfile

from vlib import core, suppview, corpus
from vlib.core import Shard
from . import c04, c06

PROPERTY = 'C17'
LEVEL = 'exploration'
RULE = ('requests selected by a pre-pass: location() at reads of Hypothesis programs (profiles c01/c02) and real files whose answer has '
        '>= 2 alternatives, location/assist on C06 hierarchies (self-assigned attributes in several classes, module members) and the '
        'C04 project modules, Hypothesis sources whose receiver is bound on several paths to instances of different classes sharing '
        'attribute names (attributes assigned through self, an alias, a closure and a module-level object in interleaving places), plus whole-file lint of the same sources; every batch is answered in k fresh interpreters (k = 4 '
        'quick, 8 thorough) with different PYTHONHASHSEED values and different amounts of prior allocation, twice per process. '
        'Oracle: serialised results identical across all runs; alternatives of one name in ascending source position. Non-trivial '
        'request: >= 3 alternatives or alternatives from >= 2 kinds of construct; distinct by request.')
ASSUMPTIONS = ['results are compared after json.dumps with sorted dictionary keys (list order is preserved: that is the property)',
               'child interpreters are /venv/bin/python with the repository on sys.path']

CHILD = os.path.join(core.VERIF, 'vlib', 'c17_child.py')
HASHSEEDS = ['0', '1', '4242', '77', '31337', '2', '999', '123456']


def select_program_requests(seed, n, sh):
    """pre-pass over generated programs: reads with >= 2 alternatives"""
    from hypothesis import given, seed as hseed, strategies as st
    from vlib.gen.programs import programs
    reqs = []

    def prop(prog):
        src = prog['src']
        fn = suppview.filename_for(prog['package'])
        try:
            ast.parse(src)
        except SyntaxError:
            return
        proj = suppview.project()
        try:
            s, scope = suppview.analyse(src, fn, proj)
        except Exception:
            return
        picked = 0
        for node in suppview.load_names(s.tree):
            a = suppview.summarize(node)
            if isinstance(a, dict) and len(a['alts']) >= 2:
                kinds = {k for k, d in a['alts']}
                reqs.append(({'kind': 'location', 'src': src, 'pos': [node.lineno, node.col_offset + len(node.id)], 'filename': fn,
                              'roots': [suppview.FIXTURES]}, len(a['alts']) >= 3 or len(kinds) >= 2, len(a['alts'])))
                picked += 1
                if picked >= 3:
                    break
        if picked:
            reqs.append(({'kind': 'lint', 'src': src, 'filename': fn, 'roots': [suppview.FIXTURES]}, False, 0))
    test = hseed(seed)(core.hyp_settings(n, shrink=False)(given(st.one_of(programs('c01'), programs('c02')))(prop)))
    test()
    return reqs


def select_receiver_requests(seed, n):
    """Hypothesis sources in which a receiver is bound on several paths to instances of DIFFERENT classes that share
    attribute names, and attributes are assigned through self / an alias / a closure / a module-level object in
    interleaving places: location and assist on receiver.attr (the alternative chosen or listed must not depend on the
    process), whole-file lint."""
    from hypothesis import given, seed as hseed, strategies as st
    reqs = []
    fn = suppview.filename_for(False)
    KL = ['Csv', 'Json', 'Yaml', 'Xml', 'Ini']
    METHS = ['dump', 'load', 'name']

    @st.composite
    def sources(draw):
        nk = draw(st.integers(2, 5))
        lines = ['import os', 'c = d = e = os.environ.get("x")']
        has = {}
        for K in KL[:nk]:
            lines.append('class %s(object):' % K)
            lines.append('    kind = %r' % K)
            ms = draw(st.lists(st.sampled_from(METHS), min_size=1, max_size=3, unique=True))
            has[K] = set(ms) | {'kind'}
            shape = draw(st.sampled_from(['plain', 'closure', 'alias', 'none']))
            if shape != 'none':
                has[K].add('state')
                lines += ['    def __init__(self, arg=None):', '        self.state = 1']
                if shape == 'closure':
                    lines += ['        def reset():', '            self.state = 2', '            return self']
                elif shape == 'alias':
                    lines += ['        me = self', '        me.state = 2']
                lines.append('        self.state = 3')
            for m in ms:
                if draw(st.booleans()):
                    has[K].add('state')
                    lines += ['    def %s(self):' % m, '        self.state = %r' % m, '        return self']
                else:
                    lines += ['    def %s(self):' % m, '        return self']
        ks = draw(st.permutations(KL[:nk]))[:draw(st.integers(2, nk))]
        form = draw(st.sampled_from(['if', 'try', 'loop', 'func']))
        ind = ''
        if form == 'func':
            lines.append('def pick(c, d):')
            ind = '    '
        if form in ('if', 'func'):
            for i, K in enumerate(ks):
                kw = 'if c == %d:' % i if i == 0 else ('elif d == %d:' % i if i < len(ks) - 1 else 'else:')
                lines += [ind + kw, ind + '    w = %s()' % K]
        elif form == 'try':
            lines += ['try:', '    w = %s()' % ks[0]]
            for K in ks[1:]:
                lines += ['except %s:' % ('ValueError' if K != ks[-1] else 'Exception'), '    w = %s()' % K]
        else:
            lines += ['w = %s()' % ks[0], 'for step in [1, 2]:', '    if step == c:', '        w = %s()' % ks[1]]
            for K in ks[2:]:
                lines += ['    elif step == d:', '        w = %s()' % K]
        if form == 'func':
            lines += ['    return w', 'w = pick(c, d)']
        common = sorted(set.intersection(*[has[K] for K in ks]))
        attr = draw(st.sampled_from(common))
        probes = []
        lines.append('print(w.%s)' % attr)
        probes.append(('location', len(lines), len('print(w.%s' % attr)))
        probes.append(('assist', len(lines), len('print(w.')))
        K = ks[0]
        lines += ['obj = %s()' % K, 'obj.state = 10', 'def conf(o=obj):', '    obj.state = 11', '    o.state = 12', 'obj.state = 13', 'print(obj.state, obj.dump, w.state)']
        probes.append(('location', len(lines), len('print(obj.state')))
        probes.append(('location', len(lines), len('print(obj.state, obj.dump, w.state')))
        return '\n'.join(lines) + '\n', probes, len(ks)

    def prop(args):
        src, probes, nk = args
        for kind, line, col in probes:
            reqs.append(({'kind': kind, 'src': src, 'pos': [line, col], 'filename': fn, 'roots': [suppview.FIXTURES]}, True, nk))
        reqs.append(({'kind': 'lint', 'src': src, 'filename': fn, 'roots': [suppview.FIXTURES]}, False, 0))
    test = hseed(seed)(core.hyp_settings(n, shrink=False)(given(sources())(prop)))
    test()
    return reqs


def select_file_requests(files, rnd):
    reqs = []
    for path in files:
        src = corpus.read(path)
        if src is None:
            continue
        tree, why = corpus.parse_in_domain(src, path)
        if tree is None:
            continue
        proj = suppview.project()
        try:
            s, scope = suppview.analyse(src, path, proj)
        except Exception:
            continue
        nodes = suppview.load_names(s.tree)
        rnd.shuffle(nodes)
        picked = 0
        for node in nodes[:400]:
            try:
                a = suppview.summarize(node)
            except Exception:
                continue
            if isinstance(a, dict) and len(a['alts']) >= 2:
                kinds = {k for k, d in a['alts']}
                reqs.append(({'kind': 'location', 'src': src, 'pos': [node.lineno, node.col_offset + len(node.id)], 'filename': path,
                              'roots': [suppview.FIXTURES]}, len(a['alts']) >= 3 or len(kinds) >= 2, len(a['alts'])))
                picked += 1
                if picked >= 2:
                    break
    return reqs


MULTI_ASSIGN = '''class A(object):
    def m1(self):
        self.v = 1
    def m2(self):
        self.v = 2
        self.w = 1
class B(A):
    def m3(self):
        self.v = 3
        self.w = 2
    def m4(self):
        self.v = 4
def pick(c):
    if c:
        r = A()
    elif c is None:
        r = B()
    else:
        r = B
    for r2 in [r]:
        pass
    else:
        r2 = r
    return r, r2
b = B()
b.v
b.w
x, y = pick(1)
def joined(c):
    try:
        if c:
            r = 1
        else:
            r = 2
    except ValueError:
        r = 3
    except KeyError:
        r = 4
    except OSError:
        r = 5
    while c:
        if c > 1:
            r = 6
        elif c > 2:
            r = 7
        c -= 1
    return r
'''


def fixed_requests(tmp):
    """hand-picked multi-alternative shapes + the C04 project"""
    reqs = []
    fn = os.path.join(tmp, 'multi.py')
    with open(fn, 'w') as f:
        f.write(MULTI_ASSIGN)
    reqs.append(({'kind': 'location', 'src': MULTI_ASSIGN, 'pos': [27, 3], 'filename': fn, 'roots': [tmp]}, True, 4))
    reqs.append(({'kind': 'location', 'src': MULTI_ASSIGN, 'pos': [28, 3], 'filename': fn, 'roots': [tmp]}, True, 2))
    reqs.append(({'kind': 'location', 'src': MULTI_ASSIGN, 'pos': [26, 14], 'filename': fn, 'roots': [tmp]}, True, 3))
    reqs.append(({'kind': 'assist', 'src': MULTI_ASSIGN + 'b.', 'pos': [48, 2], 'filename': fn, 'roots': [tmp]}, True, 3))
    reqs.append(({'kind': 'location', 'src': MULTI_ASSIGN, 'pos': [47, 12], 'filename': fn, 'roots': [tmp]}, True, 7))
    reqs.append(({'kind': 'lint', 'src': MULTI_ASSIGN, 'filename': fn, 'roots': [tmp]}, False, 0))
    # the same import repeated on several paths that meet in a join, in the buffer and in an imported module
    rep = ('c = d = 0\nif c:\n    from os import path as tool\nelif d:\n    from os import path as tool\nelse:\n    from os import path as tool\n'
           'try:\n    import json as tool2\nexcept ImportError:\n    import json as tool2\nfor q in [1]:\n    import fx_mod as tool3\nelse:\n    import fx_mod as tool3\n')
    with open(os.path.join(tmp, 'replib.py'), 'w') as f:
        f.write(rep)
    rfn = os.path.join(tmp, 'repmain.py')
    for tail, col, n in (('print(tool, tool2, tool3)\n', 10, 3), ('print(tool, tool2, tool3)\n', 17, 2), ('print(tool, tool2, tool3)\n', 24, 2)):
        reqs.append(({'kind': 'location', 'src': rep + tail, 'pos': [rep.count('\n') + 1, col], 'filename': rfn, 'roots': [tmp, suppview.FIXTURES]}, True, n))
    reqs.append(({'kind': 'lint', 'src': rep + 'print(tool2)\n', 'filename': rfn, 'roots': [tmp, suppview.FIXTURES]}, True, 3))
    for expr in ('replib.tool', 'replib.tool2', 'replib.tool3'):
        src = 'import replib\n' + expr
        reqs.append(({'kind': 'location', 'src': src, 'pos': [2, len(expr)], 'filename': rfn, 'roots': [tmp, suppview.FIXTURES]}, True, 3))
        reqs.append(({'kind': 'assist', 'src': src + '.', 'pos': [2, len(expr) + 1], 'filename': rfn, 'roots': [tmp, suppview.FIXTURES]}, True, 3))
    # a dotted import whose package does not import the submodule itself, used by a function of an imported module:
    # the same request must be answered alike the second time
    os.makedirs(os.path.join(tmp, 'dotpkg'), exist_ok=True)
    for rel, text in (('dotpkg/__init__.py', ''), ('dotpkg/sub.py', 'class Thing(object):\n    alpha = 1\n    beta = 2\n'),
                      ('dotlib.py', 'import dotpkg.sub\n\n\ndef make():\n    return dotpkg.sub.Thing()\n\n\nvalue = dotpkg.sub.Thing\n')):
        with open(os.path.join(tmp, rel), 'w') as f:
            f.write(text)
    dsrc = 'from dotlib import make, value\nthing = make()\nthing.alpha\nvalue.beta\n'
    for kind, pos in (('assist', [3, 6]), ('location', [3, 11]), ('assist', [4, 6]), ('location', [4, 10]), ('assist', [3, 6])):
        reqs.append(({'kind': kind, 'src': dsrc, 'pos': pos, 'filename': rfn, 'roots': [tmp]}, True, 2))
    cyc = 'from cyc_a import *\nfrom cyc_b import *\nfrom cyc_e import *\nimport cyc_a, cyc_b\n'
    cfn = os.path.join(suppview.FIXTURES, 'gen_prog.py')
    for tail, pos in (('cyc_a.', (5, 6)), ('cyc_b.', (5, 6)), ('c', (5, 1)), ('cyc_a.cb', (5, 8))):
        reqs.append(({'kind': 'assist', 'src': cyc + tail, 'pos': list(pos), 'filename': cfn, 'roots': [suppview.FIXTURES]}, True, 3))
    reqs.append(({'kind': 'location', 'src': cyc + 'cyc_a.cb', 'pos': [5, 8], 'filename': cfn, 'roots': [suppview.FIXTURES]}, True, 2))
    reqs.append(({'kind': 'lint', 'src': cyc + 'print(ca, cb, e_own)\n', 'filename': cfn, 'roots': [suppview.FIXTURES]}, True, 3))
    # names that differ only in case (a case-insensitive sort key would leave their order to set iteration)
    case_mod = ('NAME = 1\nName = 2\nname = 3\nQueue = 4\nqueue = 5\nQUEUE = 6\n\n\nclass Holder(object):\n    VALUE = 1\n    Value = 2\n    value = 3\n'
                '    def Run(self):\n        self.STATE = 1\n        self.State = 2\n        self.state = 3\n    def run(self):\n        pass\n\n\nholder = Holder()\n')
    with open(os.path.join(tmp, 'casemod.py'), 'w') as f:
        f.write(case_mod)
    for src, pos in (('import casemod\ncasemod.', [2, 8]), ('import casemod\ncasemod.Holder.', [2, 15]), ('import casemod\ncasemod.holder.', [2, 15]),
                     ('from casemod import ', [1, 20]), ('from casemod import Na', [1, 22]), (case_mod + 'na', [case_mod.count('\n') + 1, 2]),
                     (case_mod + 'holder.', [case_mod.count('\n') + 1, 7]), ('import tokenize\ntokenize.', [2, 9]), ('import token\ntoken.N', [2, 7])):
        reqs.append(({'kind': 'assist', 'src': src, 'pos': pos, 'filename': rfn, 'roots': [tmp]}, True, 3))
    c04.write_mods(tmp)
    for name, src in c04.MODS.items():
        path = os.path.join(tmp, name + '.py')
        for pos in c04.HPOS[name][::3]:
            reqs.append(({'kind': 'location', 'src': src, 'pos': list(pos), 'filename': path, 'roots': [tmp]}, False, 1))
        reqs.append(({'kind': 'assist', 'src': src + 'import m1\nm1.', 'pos': [src.count('\n') + 2, 3], 'filename': path, 'roots': [tmp]}, True, 3))
    return reqs


def run_batch(reqs, k, tmp, tag):
    batch = os.path.join(tmp, 'batch_%s.json' % tag)
    with open(batch, 'w') as f:
        json.dump({'repo': core.REPO, 'requests': [r for r, nt, n in reqs]}, f)
    procs = []
    for i in range(k):
        env = dict(os.environ, PYTHONHASHSEED=HASHSEEDS[i % len(HASHSEEDS)], PYTHONDONTWRITEBYTECODE='1')
        procs.append(subprocess.Popen([sys.executable, CHILD, batch, str(1000 + 7919 * i * i)], stdout=subprocess.PIPE, stderr=subprocess.PIPE, env=env))
    outs = []
    for p in procs:
        o, e = p.communicate(timeout=1200)
        if p.returncode != 0:
            raise core.HarnessError('C17 child failed: %s' % e.decode('utf-8', 'replace')[-500:])
        outs.append(json.loads(o))
    return outs


def w_batch(job):
    kind, seed, n, k = job
    sh = Shard()
    tmp = tempfile.mkdtemp(prefix='c17_')
    try:
        if kind == 'programs':
            reqs = select_program_requests(seed, n, sh)
        elif kind == 'files':
            rnd = random.Random(seed)
            reqs = select_file_requests(corpus.sample(seed, n, include_repo=(seed % 2 == 0), max_bytes=60000), rnd)
        elif kind == 'receivers':
            reqs = select_receiver_requests(seed, n)
        else:
            reqs = fixed_requests(tmp)
        if not reqs:
            return sh.result()
        outs = run_batch(reqs, k, tmp, kind)
        for i, (req, nt, nalts) in enumerate(reqs):
            answers = [o[i] for o in outs]
            sh.case(req, nt, {'kind': req['kind'], 'pos': req.get('pos'), 'alternatives': nalts, 'file': os.path.basename(req['filename']),
                              'line': (req['src'].splitlines()[req['pos'][0] - 1][:80] if req.get('pos') and req['pos'][0] <= len(req['src'].splitlines()) else None)})
            sh.count('requests:' + req['kind'])
            sh.count('executions', 3 * k)
            first = answers[0][0]
            if any(len(set(a)) > 1 for a in answers):
                sh.violation('differs-within-one-process:' + req['kind'], _small(req), 'two identical calls in one process returned different results')
                continue
            if any(a[0] != first for a in answers):
                variants = sorted({a[0] for a in answers})
                sh.violation('differs-across-processes:' + req['kind'], _small(req),
                             '%d distinct serialised results over %d processes, e.g. %s VS %s' % (len(variants), k, variants[0][:200], variants[1][:200]))
                continue
            if req['kind'] == 'location':
                st, res = json.loads(first)
                if st == 'ok':
                    for r in res:
                        if isinstance(r, list):
                            locs = [(e['file'], tuple(e['loc'])) for e in r]
                            same_file = len({f for f, l in locs}) == 1
                            if same_file and locs != sorted(locs):
                                sh.violation('alternatives-not-in-source-order', _small(req), 'location lists %s' % (locs,))
    finally:
        shutil.rmtree(tmp, ignore_errors=True)
    return sh.result()


def _small(req):
    r = dict(req)
    if len(r['src']) > 4000 and os.path.exists(r['filename']):
        r['src'] = None       # replay reads the file
    return r


def run(run):
    k = run.pick(4, 8)
    jobs = [('fixed', 0, 0, k)]
    jobs += [('programs', core.derive_seed(run.seed, 'c17p', i), run.pick(60, 600), k) for i in range(run.pick(3, 6))]
    jobs += [('receivers', core.derive_seed(run.seed, 'c17r', i), run.pick(40, 400), k) for i in range(run.pick(2, 4))]
    jobs += [('files', core.derive_seed(run.seed, 'c17f', i), run.pick(12, 120), k) for i in range(run.pick(3, 6))]
    run.pmap(w_batch, jobs, procs=4)


def replay(case):
    req = dict(case)
    if req.get('src') is None:
        req['src'] = corpus.read(req['filename'])
    tmp = tempfile.mkdtemp(prefix='c17r_')
    try:
        if not all(os.path.isdir(r) for r in req['roots']):
            # roots of the fixed batch were temporary: recreate them
            fixed_requests(tmp)
            req['roots'] = [tmp]
            req['filename'] = os.path.join(tmp, os.path.relpath(req['filename'], case['roots'][0]))
        outs = run_batch([(req, True, 0)], 6, tmp, 'replay')
        answers = [o[0] for o in outs]
        out = []
        if any(len(set(a)) > 1 for a in answers):
            out.append({'signature': 'differs-within-one-process:' + req['kind'], 'case': case, 'detail': ''})
        elif len({a[0] for a in answers}) > 1:
            out.append({'signature': 'differs-across-processes:' + req['kind'], 'case': case, 'detail': repr(sorted({a[0] for a in answers}))[:400]})
        else:
            st, res = json.loads(answers[0][0])
            if req['kind'] == 'location' and st == 'ok':
                for r in res:
                    if isinstance(r, list):
                        locs = [(e['file'], tuple(e['loc'])) for e in r]
                        if len({f for f, l in locs}) == 1 and locs != sorted(locs):
                            out.append({'signature': 'alternatives-not-in-source-order', 'case': case, 'detail': repr(locs)})
        return out
    finally:
        shutil.rmtree(tmp, ignore_errors=True)


KNOWN = {}
