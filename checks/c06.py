"""C06 - attribute completion and go-to-definition follow Python's lookup order.

Generator: class-hierarchy IR (1-6 classes, depth <= 4, <= 3 bases, no repeated ancestors, builtin and source bases,
class attributes / methods / property / classmethod / staticmethod / descriptor-decorated methods, overrides, self
assignments in arbitrary methods) spread over up to 4 modules (two in a package) and reached through every import form.
Oracle: the same files imported by CPython in a child process (__mro__, vars(), instance __dict__ after calling the
no-argument methods in a fixed order).
"""
import ast
import json
import os
import shutil
import subprocess
import sys
import tempfile

from vlib import core
from vlib.core import Shard, Found

PROPERTY = 'C06'
LEVEL = 'exploration'
RULE = ('Hypothesis class-hierarchy IR rendered to 1-4 modules (m0, m1, p.m2, p.m3) with generated import forms between them; '
        'probed expressions: the class, a call of the class, a variable assigned from the call, self inside a method, a '
        'single-return function call, the module, a string literal; for each: assist at `expr.|` must contain every '
        'source-defined attribute CPython finds (vars() along __mro__ + instance __dict__), location at `expr.at|tr` must be the '
        'definition Python selects. An empty proposal list for a listed form is a failure, never a skip. Non-trivial hierarchy: '
        '>= 1 override or >= 1 attribute that is both a class attribute and self-assigned; distinct by rendered files + probe.')
ASSUMPTIONS = ['hierarchies without repeated ancestors (tree-shaped), as the property states',
               'methods are called on the instance in sorted-name order to decide which self-assignment executed last',
               'cls() inside a classmethod is not generated (supp models cls as an instance)']

ATTRS = ['a', 'b', 'c', 'm', 'n']
BUILTIN_BASES = ['object', 'dict', 'list', 'Exception']
DUNDERS = ['__init__', '__str__', '__repr__']
MODS = ['m0', 'm1', 'p.m2', 'p.m3']


def hierarchy_strategy():
    from hypothesis import strategies as st

    @st.composite
    def hier(draw):
        n = draw(st.integers(1, 6))
        # classes are created module by module; which file each level is decides who imports whom (a top-level module may import two
        # submodules of the package, a package module may import a top-level one, ...)
        perm = draw(st.permutations([0, 1, 2, 3]))
        classes = []
        anc = {}       # class index -> set of ancestor indexes (incl. self)
        depth = {}
        mod = 0
        for i in range(n):
            mod = min(3, mod + draw(st.integers(0, 1)) * draw(st.integers(0, 1)) + (1 if draw(st.integers(0, 4)) == 0 else 0))
            mod = min(mod, 3)
            bases = []
            used = set()
            nb = draw(st.integers(0, 3)) if i else 0
            cands = list(range(i))
            for _ in range(nb):
                # no repeated ancestors: source ancestors are disjoint, and at most one base brings a builtin class other
                # than object (two would repeat it, e.g. C(A(list), B(list)), or conflict in layout)
                ok = [j for j in cands if not (anc[j] & used) and depth[j] < 4
                      and not (classes[j]['real_builtin'] and any(classes[b]['real_builtin'] for b in bases))]
                if not ok:
                    break
                j = draw(st.sampled_from(ok))
                bases.append(j)
                used |= anc[j]
            bbase = None
            if draw(st.integers(0, 4)) == 0 and not any(classes[j]['bbase_chain'] for j in bases):
                bbase = draw(st.sampled_from(BUILTIN_BASES))
            elif draw(st.integers(0, 5)) == 0 and not any(classes[j]['real_builtin'] for j in bases):
                bbase = 'object'        # explicit object next to bases that already end in it
            members = []
            names = draw(st.lists(st.sampled_from(ATTRS), min_size=1, max_size=4, unique=True))
            for nm in names:
                kind = draw(st.sampled_from(['attr', 'attr', 'method', 'method', 'method', 'property', 'classmethod', 'staticmethod', 'descriptor']))
                assigns = draw(st.lists(st.sampled_from(ATTRS + ['x', 'y']), max_size=2, unique=True)) if kind == 'method' else []
                if kind == 'property' and draw(st.booleans()):
                    # the lazy-cache idiom: a getter that assigns through self (names no member of any class carries, so that the
                    # assignment never meets a read-only property)
                    assigns = draw(st.lists(st.sampled_from(['x', 'y', 'cache_' + nm]), min_size=1, max_size=2, unique=True))
                # a method may first assign through another receiver (tmp.x = ...) before it assigns through self
                foreign = kind == 'method' and bool(assigns) and draw(st.integers(0, 3)) == 0
                members.append({'name': nm, 'kind': kind, 'assigns': assigns, 'foreign': foreign,
                                'unpack': draw(st.integers(0, 3)) if len(assigns) >= 2 else 0})
            if draw(st.integers(0, 3)) == 0:
                # object-level special methods: builtin bases inherit them from object (which comes LAST in the MRO)
                for nm in draw(st.lists(st.sampled_from(DUNDERS), min_size=1, max_size=2, unique=True)):
                    members.append({'name': nm, 'kind': 'method', 'assigns': draw(st.lists(st.sampled_from(ATTRS + ['x', 'y']), max_size=2, unique=True)),
                                    'foreign': False})
            # a privately named class (abstract base, mixin) referred to from other modules like any other
            private = draw(st.integers(0, 4)) == 0
            anc[i] = {i} | used
            depth[i] = 1 + max([depth[j] for j in bases] or [0])
            classes.append({'name': ('_C%d' if private else 'C%d') % i, 'mod': perm[mod], 'bases': bases, 'bbase': bbase, 'members': members,
                            'bbase_first': bool(bbase) and bbase != 'object' and draw(st.booleans()),
                            'real_builtin': bbase not in (None, 'object') or any(classes[j]['real_builtin'] for j in bases),
                            'bbase_chain': bool(bbase) or any(classes[j]['bbase_chain'] for j in bases)})
        forms = draw(st.lists(st.sampled_from([0, 1, 1, 1, 2, 3]), min_size=n * 4, max_size=n * 4))     # 1 = plain dotted `import p.m2`
        probe_forms = draw(st.lists(st.integers(0, 3), min_size=n, max_size=n))
        return {'classes': classes, 'forms': forms, 'probe_forms': probe_forms}
    return hier()


# ---------------------------------------------------------------------------
# rendering

def ref_from(importer_mod, target_mod, cname, form):
    """-> (import line, expression naming the class) for class cname of target_mod seen from importer_mod (None = root probe)"""
    in_pkg = importer_mod is not None and importer_mod.startswith('p.')
    tpkg = target_mod.startswith('p.')
    leaf = target_mod.split('.')[-1]
    if form == 0:
        return 'from %s import %s' % (target_mod, cname), cname
    if form == 1:
        return 'import %s' % target_mod, '%s.%s' % (target_mod, cname)
    if form == 2:
        alias = 'q_' + leaf
        return 'import %s as %s' % (target_mod, alias), '%s.%s' % (alias, cname)
    if tpkg:
        if in_pkg:
            return 'from .%s import %s' % (leaf, cname), cname
        return 'from p import %s' % leaf, '%s.%s' % (leaf, cname)
    return 'from %s import %s as %s_alias' % (target_mod, cname, cname), '%s_alias' % cname


def render(h):
    """-> {relative path: source}, plus probe metadata"""
    classes = h['classes']
    files = {m: [] for m in MODS}
    imports = {m: [] for m in MODS}
    meta = {}
    fi = 0
    for ci, c in enumerate(classes):
        mod = MODS[c['mod']]
        bexprs = []
        for j in c['bases']:
            b = classes[j]
            bmod = MODS[b['mod']]
            if bmod == mod:
                bexprs.append(b['name'])
            else:
                line, expr = ref_from(mod, bmod, b['name'], h['forms'][fi % len(h['forms'])])
                fi += 1
                if line not in imports[mod]:
                    imports[mod].append(line)
                bexprs.append(expr)
        if c['bbase']:
            if c.get('bbase_first'):
                bexprs.insert(0, c['bbase'])        # class C(dict, Source): the MRO is C, dict, Source, object
            else:
                bexprs.append(c['bbase'])
        lines = ['class %s%s:' % (c['name'], '(%s)' % ', '.join(bexprs) if bexprs else '')]
        for mb in c['members']:
            k = mb['kind']
            nm = mb['name']
            if k == 'attr':
                lines.append('    %s = %d' % (nm, ci))
            elif k == 'method':
                lines.append('    def %s(self):' % nm)
                if mb.get('foreign'):
                    lines += ['        tmp = Desc(None)', '        tmp.other_%s = self' % nm]
                if mb.get('unpack') and len(mb['assigns']) >= 2:
                    # attribute targets inside an unpacking bind instance attributes like plain ones
                    form = ['self.%s, self.%s = %d, %d', '[self.%s, self.%s] = [%d, %d]', 'self.%s, *self.%s = %d, %d'][mb['unpack'] - 1]
                    lines.append('        ' + form % (mb['assigns'][0], mb['assigns'][1], ci, ci))
                    rest = mb['assigns'][2:]
                else:
                    rest = mb['assigns']
                for a in rest:
                    lines.append('        self.%s = %d' % (a, ci))
                lines.append('        return None')
            elif k == 'property':
                lines += ['    @property', '    def %s(self):' % nm] + ['        self.%s = %d' % (a, ci) for a in mb['assigns']] + ['        return %d' % ci]
            elif k == 'classmethod':
                lines += ['    @classmethod', '    def %s(cls):' % nm, '        return %d' % ci]
            elif k == 'staticmethod':
                lines += ['    @staticmethod', '    def %s():' % nm, '        return %d' % ci]
            else:
                lines += ['    @Desc', '    def %s(self):' % nm, '        return %d' % ci]
        lines += ['    def zz_probe(self):', '        self.zz_probe', '        return self']
        files[mod].append('\n'.join(lines))
    out = {}
    for m in MODS:
        if not files[m]:
            continue
        head = list(imports[m])
        if any('Desc' in chunk for chunk in files[m]):
            # only where it is used: a module without any attribute assignment of its own is a case of its own
            head.append('class Desc(object):\n    def __init__(self, f):\n        self.f = f\n    def __get__(self, obj, cls=None):\n        return self.f(obj)\n')
        out[m.replace('.', '/') + '.py'] = '\n'.join(head) + '\n' + '\n\n'.join(files[m]) + '\n'
    if any(k.startswith('p/') for k in out):
        out['p/__init__.py'] = ''
    return out


ORACLE = r'''
import sys, json, importlib
root = sys.argv[1]
sys.path.insert(0, root)
spec = json.load(open(sys.argv[2]))
DUNDERS = ['__init__', '__str__', '__repr__']
out = {}
for c in spec:
    mod = importlib.import_module(c['mod'])
    K = getattr(mod, c['name'])
    mro = [k for k in K.__mro__]
    info = {'mro': [(k.__module__, k.__name__) for k in mro]}
    names = {}
    for k in mro:
        if k.__module__ in ('builtins',):
            continue
        for n in vars(k):
            if not n.startswith('__') and n not in names:
                names[n] = (k.__module__, k.__name__)
    for n in DUNDERS:
        owners = [k for k in mro if n in vars(k)]
        if owners and owners[0].__module__ != 'builtins':
            names[n] = (owners[0].__module__, owners[0].__name__)
    info['class_names'] = names
    try:
        obj = K()
        called = []
        for n in sorted(names):
            if n == 'zz_probe':
                continue
            ownerk = [k for k in mro if n in vars(k)][0]
            raw = vars(ownerk)[n]
            if type(raw).__name__ == 'function':
                getattr(obj, n)()
                called.append((n, ownerk.__module__, ownerk.__name__))
            elif isinstance(raw, property):
                getattr(obj, n)                 # a getter may assign through self
                called.append((n, ownerk.__module__, ownerk.__name__))
        info['instance_dict'] = sorted(getattr(obj, '__dict__', {}))
        info['called'] = called
    except Exception as e:
        info['instance_error'] = repr(e)
    out[c['name']] = info
json.dump(out, sys.stdout)
'''


def oracle_inprocess(root, spec):
    """Import the rendered modules under CPython (this process, modules removed again afterwards) and inspect
    __mro__, vars() and the instance __dict__ after calling the plain methods in sorted-name order."""
    import importlib
    names = ('m0', 'm1', 'p', 'p.m2', 'p.m3')
    saved = {k: sys.modules.pop(k) for k in names if k in sys.modules}
    sys.path.insert(0, root)
    importlib.invalidate_caches()
    old_flag = sys.dont_write_bytecode
    sys.dont_write_bytecode = True
    out = {}
    try:
        for c in spec:
            mod = importlib.import_module(c['mod'])
            K = getattr(mod, c['name'])
            mro = list(K.__mro__)
            info = {'mro': [(k.__module__, k.__name__) for k in mro]}
            cn = {}
            for k in mro:
                if k.__module__ == 'builtins':
                    continue
                for n in vars(k):
                    if not n.startswith('__') and n not in cn:
                        cn[n] = (k.__module__, k.__name__)
            for n in DUNDERS:
                # special methods: the first class of the FULL MRO (builtin classes included) that defines the name
                owners = [k for k in mro if n in vars(k)]
                if owners and owners[0].__module__ != 'builtins':
                    cn[n] = (owners[0].__module__, owners[0].__name__)
            info['class_names'] = cn
            try:
                obj = K()
                called = []
                for n in sorted(cn):
                    if n == 'zz_probe':
                        continue
                    ownerk = [k for k in mro if n in vars(k)][0]
                    if type(vars(ownerk)[n]).__name__ == 'function':
                        getattr(obj, n)()
                        called.append((n, ownerk.__module__, ownerk.__name__))
                    elif isinstance(vars(ownerk)[n], property):
                        getattr(obj, n)             # a getter may assign through self (lazy-cache idiom)
                        called.append((n, ownerk.__module__, ownerk.__name__))
                info['instance_dict'] = sorted(getattr(obj, '__dict__', {}))
                info['called'] = called
            except Exception as e:
                info['instance_error'] = repr(e)
            out[c['name']] = info
    finally:
        sys.dont_write_bytecode = old_flag
        sys.path.remove(root)
        for k in names:
            sys.modules.pop(k, None)
        sys.modules.update(saved)
        for k in [k for k in sys.path_importer_cache if k.startswith(root)]:
            del sys.path_importer_cache[k]
    return out


def positions(files):
    """definition positions from the rendered sources: {(relpath, class, member): (line, col)}, self-assign sites"""
    defs = {}
    assigns = {}
    for rel, src in files.items():
        tree = ast.parse(src)
        lines = src.splitlines()
        for node in tree.body:
            if isinstance(node, ast.ClassDef):
                for st in node.body:
                    if isinstance(st, ast.Assign):
                        t = st.targets[0]
                        defs[(rel, node.name, t.id)] = (t.lineno, t.col_offset)
                    elif isinstance(st, ast.FunctionDef):
                        col = lines[st.lineno - 1].index('def ') + 4
                        defs[(rel, node.name, st.name)] = (st.lineno, col)
                        for n in ast.walk(st):
                            if isinstance(n, ast.Assign):
                                for a in ast.walk(n.targets[0]):
                                    if isinstance(a, ast.Attribute) and isinstance(a.ctx, ast.Store) \
                                            and isinstance(a.value, ast.Name) and a.value.id == 'self':
                                        assigns.setdefault((rel, node.name, st.name), []).append((a.attr, (a.lineno, a.col_offset)))
    return defs, assigns


def check_hierarchy(h, sh=None):
    """-> (problems, info)"""
    from supp.project import Project
    from supp import assistant
    files = render(h)
    root = tempfile.mkdtemp(prefix='c06_')
    info = {'probes': 0, 'nontrivial': False}
    problems = []
    try:
        for rel, src in files.items():
            path = os.path.join(root, rel)
            os.makedirs(os.path.dirname(path), exist_ok=True)
            with open(path, 'w') as f:
                f.write(src)
        classes = h['classes']
        spec = [{'mod': MODS[c['mod']], 'name': c['name']} for c in classes]
        try:
            oracle = oracle_inprocess(root, spec)
        except Exception as e:
            info['oracle_error'] = repr(e)
            return [], info
        defs, assigns = positions(files)
        rel_of = {MODS[c['mod']]: MODS[c['mod']].replace('.', '/') + '.py' for c in classes}
        # non-trivial?
        all_names = [set(mb['name'] for mb in c['members']) for c in classes]
        for i, c in enumerate(classes):
            ancestors = [k for k in oracle[c['name']]['mro'][1:]]
            for (m_, n_) in ancestors:
                j = [x for x, cc in enumerate(classes) if cc['name'] == n_ and MODS[cc['mod']] == m_]
                if j and all_names[i] & all_names[j[0]]:
                    info['nontrivial'] = True
            assigned = {a for mb in c['members'] for a in mb['assigns']}
            if assigned & set().union(*all_names):
                info['nontrivial'] = True
        project = Project([root])
        for ci, c in enumerate(classes):
            o = oracle[c['name']]
            mod = MODS[c['mod']]
            imp, cexpr = ref_from(None, mod, c['name'], h['probe_forms'][ci])
            head = imp + '\n' + 'v = %s()\n' % cexpr + 'def f():\n    return %s()\n' % cexpr
            class_names = set(o['class_names'])
            inst_names = class_names | set(o.get('instance_dict', []))
            probes = [('class', cexpr, class_names, False)]
            if 'instance_error' not in o:
                probes += [('instance-call', cexpr + '()', inst_names, True), ('instance-var', 'v', inst_names, True),
                           ('function-result', 'f()', inst_names, True)]
            pfile = os.path.join(root, 'probe.py')
            for label, expr, expected, is_inst in probes:
                src = head + expr + '.'
                pos = (src.count('\n') + 1, len(expr) + 1)
                problems += probe(project, assistant, src, pos, pfile, label, expected, c, o, defs, assigns, rel_of, root, is_inst, expr, head, info)
            # self inside a method of the class (in its own file)
            if 'instance_error' not in o:
                rel = rel_of[mod]
                src = files[rel]
                lines = src.splitlines()
                idx = [i for i, l in enumerate(lines) if l == '        self.zz_probe']
                # the probe line of THIS class: the ci-th class of that module in order of appearance
                order = [k for k, cc in enumerate(classes) if cc['mod'] == c['mod']]
                li = idx[order.index(ci)]
                lines2 = list(lines)
                lines2[li] = '        self.'
                src2 = '\n'.join(lines2) + '\n'
                problems += probe(project, assistant, src2, (li + 1, 13), os.path.join(root, rel), 'self-in-method', inst_names, c, o, defs, assigns,
                                  rel_of, root, True, 'self', None, info, lines2=lines2, li=li)
        # module and literal forms
        mod0 = MODS[classes[0]['mod']]
        imp = 'import %s' % mod0
        src = imp + '\n' + mod0 + '.'
        info['probes'] += 1
        try:
            pre, props = assistant.assist(project, src, (2, len(mod0) + 1), os.path.join(root, 'probe.py'))
            want = {cc['name'] for cc in classes if MODS[cc['mod']] == mod0}
            if not want <= set(props):
                problems.append(('module-attribute-missing', 'after %r: missing %s' % (src, sorted(want - set(props)))))
        except Exception as e:
            problems.append(('assist-raises:%s' % type(e).__name__, repr(e)))
        src = "s = 'text'\n'lit'."
        pre, props = assistant.assist(project, src, (2, 6), os.path.join(root, 'probe.py'))
        if not {'join', 'upper', 'startswith'} <= set(props):
            problems.append(('literal-attribute-missing', 'str literal proposes %s...' % props[:5]))
        # scalar literals, also ones that compare equal across types (1 == 1.0 == True, 0 == 0.0 == False), in an order that
        # depends on the generated hierarchy: the proposals are exactly the attributes of the object CPython creates
        lits = ['1', '1.0', 'True', '0', '0.0', 'False', "''", "b''", '1j', 'None', '2', '2.0', '0j']
        k = (sum(h['forms']) + len(classes)) % len(lits)
        step = [1, 3, 5, 7, 11][sum(h['probe_forms']) % 5]
        for i in range(len(lits)):
            lit = lits[(k + i * step) % len(lits)]
            src = 'x = %s\nx.' % lit
            info['probes'] += 1
            try:
                pre, props = assistant.assist(project, src, (2, 2), os.path.join(root, 'probe.py'))
            except Exception as e:
                problems.append(('assist-raises:%s' % type(e).__name__, 'literal %s: %r' % (lit, e)))
                continue
            want = sorted(dir(eval(lit)))
            if props != want:
                problems.append(('literal-attributes-differ', 'x = %s; x.| proposes %d names, the object has %d; only proposed %s, missing %s' % (
                    lit, len(props), len(want), sorted(set(props) - set(want))[:4], sorted(set(want) - set(props))[:4])))
                break
    finally:
        shutil.rmtree(root, ignore_errors=True)
    return problems, info


def probe(project, assistant, src, pos, pfile, label, expected, c, o, defs, assigns, rel_of, root, is_inst, expr, head, info, lines2=None, li=None):
    out = []
    info['probes'] += 1
    try:
        pre, props = assistant.assist(project, src, pos, pfile)
    except Exception as e:
        return [('assist-raises:%s' % type(e).__name__, '%s probe %r: %r' % (label, expr, e))]
    missing = sorted(n for n in expected if n not in props)
    if not props:
        return [('no-proposals:%s' % label, 'probe %r of class %s returned no proposals (expected %s)' % (expr, c['name'], sorted(expected)))]
    if missing:
        out.append(('attribute-missing:%s' % label, 'probe %r of class %s: missing %s (MRO %s)' % (expr, c['name'], missing, [k[1] for k in o['mro']])))
    # go-to-definition on every expected attribute
    inst_dict = set(o.get('instance_dict', [])) if is_inst else set()
    for attr in sorted(expected):
        if attr == 'zz_probe':
            continue
        if lines2 is None:
            s2 = head + expr + '.' + attr
            p2 = (s2.count('\n') + 1, len(expr) + 1 + max(1, len(attr) - 1) if len(attr) > 1 else len(expr) + 2)
            p2 = (s2.count('\n') + 1, len(expr) + 1 + len(attr))
        else:
            l3 = list(lines2)
            l3[li] = '        self.' + attr
            s2 = '\n'.join(l3) + '\n'
            p2 = (li + 1, 13 + len(attr))
        info['probes'] += 1
        try:
            res = assistant.location(project, s2, p2, pfile)
        except Exception as e:
            out.append(('location-raises:%s' % type(e).__name__, '%s probe %s.%s: %r' % (label, expr, attr, e)))
            continue
        got = set()
        for r in res:
            for e in (r if isinstance(r, list) else [r]):
                got.add((os.path.relpath(e['file'], root) if e['file'] and os.path.isabs(e['file']) else e['file'], tuple(e['loc'])))
        mro_src = [(m, n) for (m, n) in o['mro'] if m != 'builtins']
        if attr in inst_dict:
            sites = {}
            for (m, n) in mro_src:
                for (rel, cn, meth), lst in assigns.items():
                    if rel == rel_of.get(m) and cn == n:
                        for a, p in lst:
                            if a == attr:
                                sites[(rel, p)] = (n, meth)
            last = None
            for (meth, m, n) in o.get('called', []):
                for a, p in assigns.get((rel_of.get(m), n, meth), []):
                    if a == attr:
                        last = (rel_of[m], p)
            if not got:
                out.append(('definition-empty:instance-attribute:%s' % label, '%s.%s: no location (assignment sites %s)' % (expr, attr, sorted(sites))))
            elif not got <= set(sites):
                out.append(('definition-not-an-assignment-site:%s' % label, '%s.%s (in instance __dict__): location %s, assignment sites %s' % (expr, attr, sorted(got), sorted(sites))))
            elif last is not None and last not in got:
                out.append(('definition-misses-last-assignment:%s' % label, '%s.%s: location %s lacks the assignment executed last %s' % (expr, attr, sorted(got), last)))
        else:
            owner = o['class_names'].get(attr)
            if owner is None:
                continue
            want = (rel_of[owner[0]], defs.get((rel_of[owner[0]], owner[1], attr)))
            # self-assignments that exist in MRO classes but were not executed by the oracle's call sequence (their method is
            # shadowed or not a plain method): "an instance assignment if there is one" may legitimately point at them
            static_sites = set()
            for (m, n) in mro_src:
                for (rel, cn, meth), lst in assigns.items():
                    if rel == rel_of.get(m) and cn == n:
                        for a, p in lst:
                            if a == attr:
                                static_sites.add((rel, p))
            if is_inst and static_sites:
                if not got or not got <= (static_sites | {want}):
                    out.append(('definition-wrong-class:%s' % label, '%s.%s: Python finds it in %s at %s (unexecuted self-assignments %s); location says %s' % (
                        expr, attr, owner[1], want, sorted(static_sites), sorted(got))))
            elif got != {want}:
                out.append(('definition-wrong-class:%s' % label, '%s.%s: Python finds it in %s at %s; location says %s (MRO %s)' % (
                    expr, attr, owner[1], want, sorted(got), [k[1] for k in o['mro']])))
    return out


def w_hier(job):
    idx, seed, n = job
    sh = Shard()

    def prop(h):
        probs, info = check_hierarchy(h)
        if 'oracle_error' in info:
            sh.count('discard:oracle-error')
            sh.notes.append(info['oracle_error'][-200:])
            return
        sh.case(render(h), info['nontrivial'], {'classes': [(c['name'], MODS[c['mod']], [h['classes'][j]['name'] for j in c['bases']], c['bbase'],
                                                             [(m['name'], m['kind'], m['assigns']) for m in c['members']]) for c in h['classes']]})
        sh.count('hierarchies')
        sh.count('probes', info['probes'])
        sh.count('hier-with-%d-classes' % len(h['classes']))
        if any(len(c['bases']) >= 2 for c in h['classes']):
            sh.count('hier-multiple-inheritance')
        if any(c['bbase'] for c in h['classes']):
            sh.count('hier-builtin-base')
        if len({c['mod'] for c in h['classes']}) > 1:
            sh.count('hier-several-modules')
        for sig, detail in probs:
            if sig not in sh.excluded:
                raise Found(sig, h, detail)
    def minimise(f):
        h = json.loads(json.dumps(f.case))

        def fails(hh):
            try:
                probs, _ = check_hierarchy(hh)
            except Exception:
                return False
            return any(sg == f.signature for sg, _ in probs)
        changed = True
        steps = 0
        while changed and steps < 60:
            changed = False
            # drop a class nobody inherits from
            for i in range(len(h['classes']) - 1, -1, -1):
                if len(h['classes']) > 1 and not any(i in c['bases'] for c in h['classes']):
                    hh = json.loads(json.dumps(h))
                    del hh['classes'][i]
                    for c in hh['classes']:
                        c['bases'] = [b - 1 if b > i else b for b in c['bases']]
                    del hh['probe_forms'][i]
                    steps += 1
                    if fails(hh):
                        h = hh
                        changed = True
                        break
            if changed:
                continue
            for ci, c in enumerate(h['classes']):
                for mi in range(len(c['members'])):
                    hh = json.loads(json.dumps(h))
                    del hh['classes'][ci]['members'][mi]
                    steps += 1
                    if fails(hh):
                        h = hh
                        changed = True
                        break
                if changed:
                    break
        probs, _ = check_hierarchy(h)
        det = [d for sg, d in probs if sg == f.signature]
        return Found(f.signature, h, det[0] if det else f.detail)
    core.hyp_search(sh, prop, hierarchy_strategy(), seed, n, shrink=False, max_rounds=5, minimise=minimise, budget_s=40)
    return sh.result()


def run(run):
    run.pmap(w_hier, [(i, core.derive_seed(run.seed, 'c06', i), run.pick(120, 2500)) for i in range(16)])
    d = run.counters.get('discard:oracle-error', 0)
    if d > 0.2 * max(1, run.counters.get('hierarchies', 0) + d):
        raise core.HarnessError('oracle failed on %d hierarchies: %s' % (d, run.notes[:2]))


def replay(case):
    probs, info = check_hierarchy(case)
    seen, out = set(), []
    for sig, detail in probs:
        if sig not in seen:
            seen.add(sig)
            out.append({'signature': sig, 'case': case, 'detail': detail})
    return out


KNOWN = {}
