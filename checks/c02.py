"""C02 - the definition actually read is reported (no false 'unused', go-to-definition complete).

Generator: programs('c02') (structured fragment).  Oracle: dynref, abort mode: for every successful read whose
value came from binding site d in the same scope body, d must be among supp's alternatives (fresh names_at),
location() from the read must list d, and lint must not flag d as unused (W01/W02).
"""
from vlib import core, dynref, suppview
from vlib.core import Shard, Found
from .dyn_common import Dyn
from . import dyn_common
from . import c01

PROPERTY = 'C02'
LEVEL = 'exploration'
RULE = ('Hypothesis programs from the structured C02 fragment (profile c02: no break/continue, raise/risky only as first '
        'or last statement of a try body and always caught, comprehensions do not read names rebound by the enclosing '
        'statement); dynref enumerates decision sequences in abort mode; every (read, binding site d) pair observed with d '
        'in the same function/lambda/class/module body is checked against names_at alternatives, location() and lint '
        'W01/W02. Non-trivial program: some checked read has >= 2 observed same-scope definitions, or a checked read sits '
        'in or after a loop / try statement of its scope; distinct by source text.')
ASSUMPTIONS = ['"same body" decided by the instrumenter scope ids (list/set/dict comprehensions count as the enclosing body, generator expressions and lambdas are own scopes)',
               'CPython 3.12 + dynref instrumenter (self-test each run); loop bound 2']


def flat_locs(result, filename):
    out = set()
    for r in result:
        for e in (r if isinstance(r, list) else [r]):
            if e.get('file') == filename:
                out.add(tuple(e['loc']))
    return out


@core.crash_guard({'checked_pairs': 1, 'nontrivial': True, 'runs': 0, 'exhaustive': False, 'skipped': None})
def check_program(prog, cap):
    from supp import assistant
    src = prog['src']
    info = {'checked_pairs': 0, 'nontrivial': False, 'runs': 0, 'exhaustive': False, 'skipped': None}
    try:
        compile(src, '<gen>', 'exec')
    except SyntaxError as e:
        info['skipped'] = 'syntax:' + str(e.msg)
        return [], info
    try:
        d = Dyn(prog, 'abort', cap)
    except dynref.Unsupported as e:
        info['skipped'] = 'unsupported:' + str(e)
        return [], info
    info['runs'] = d.res['runs']
    info['exhaustive'] = d.exhaustive
    proj = suppview.project()
    lv = suppview.lint_view(proj, src, d.filename)
    problems = []
    if lv['E01']:
        return [('lint-E01-on-valid-program', repr(lv['E01']))], info
    unused = {(l, c): code for code in ('W01', 'W02') for (l, c, n) in lv[code]}
    structured = any(f in prog.get('features', ()) for f in ('for', 'while', 'try'))
    cond_walrus = dyn_common.conditional_walrus_sites(d.tree)
    star_kw = dyn_common.star_before_keyword_walrus(d.tree)
    own_iter = dyn_common.own_iterable_reads(d.tree)
    split_reads = dyn_common.split_statement_reads(d.tree)
    shared = suppview.shared_reads(src, d.filename, proj)
    for rid, pos, name, outcomes in d.reads():
        rscope = d.ins.read_scope[rid]
        sites = sorted({s for oc, s in outcomes if oc == 'ok' and s in d.ins.sites and d.ins.sites[s][2] == rscope})
        if not sites:
            continue
        if len(sites) >= 2 or structured:
            info['nontrivial'] = True
        fresh = suppview.fresh_read(src, d.filename, proj, pos)
        alts = {tuple(a[1]) for a in fresh['alts']} if isinstance(fresh, dict) else set()
        # the same read when every read of the module is queried in source order on ONE analysis (the linter's usage):
        # a definition has to be listed in both views
        sh_view = shared.get(pos, fresh)
        if sh_view != fresh and sh_view != 'E42':
            info['shared_view_differs'] = info.get('shared_view_differs', 0) + 1
            alts &= {tuple(a[1]) for a in sh_view['alts']} if isinstance(sh_view, dict) else set()
            fresh = {'first query on a fresh analysis': fresh, 'all reads queried in source order on one analysis': sh_view}
        try:
            locs = flat_locs(assistant.location(proj, src, (pos[0], pos[1] + len(name)), d.filename), d.filename)
            loc_err = None
        except Exception as e:
            locs, loc_err = set(), e
        for s in sites:
            info['checked_pairs'] += 1
            kind = d.site_kind(s)
            if c01.annotation_after_binding(d.ins, pos, [s]):
                if s not in alts or s in unused or (loc_err is None and s not in locs):
                    problems.append(('annotation-evaluated-after-binding', 'annotation read %s at %s obtains %s bound by its own statement' % (name, pos, s)))
                continue
            ctx = suppview.parent_context(d.tree, pos)
            if s not in alts and name in cond_walrus and (cond_walrus[name] & alts):
                problems.append(('conditional-walrus-shadows-definition',
                                 'read %s at %s obtains %s; supp lists only %s because the conditional walrus at %s is treated as unconditional' % (
                                     name, pos, s, sorted(alts), sorted(cond_walrus[name] & alts))))
                continue
            if s not in alts and pos in split_reads and name in split_reads[pos]:
                problems.append(('statement-split-by-comprehension',
                                 'read %s at %s follows a comprehension inside a statement that rebinds it; supp lists %s, run time %s' % (name, pos, sorted(alts), s)))
                continue
            if s not in alts and pos in star_kw:
                problems.append(('star-argument-evaluated-before-keyword-walrus',
                                 '*%s at %s is evaluated before the keyword argument that rebinds it: run time %s, supp %s' % (name, pos, s, sorted(alts))))
                continue
            if s not in alts and pos in own_iter and kind == 'comp':
                problems.append(('comprehension-variable-read-in-its-own-iterable', 'read %s at %s obtains the previous trip\'s %s' % (name, pos, s)))
                continue
            if s not in alts and dyn_common.in_finally_reached_by_return(d.tree, pos):
                problems.append(('finally-reached-through-return',
                                 'read %s at %s sits in a finally block that a return statement of the try statement jumps to; run time %s, supp %s' % (name, pos, s, sorted(alts))))
                continue
            if s not in alts:
                problems.append(('definition-missing:%s:%s' % (kind, ctx),
                                 'read %s at %s obtains the value bound at %s (%s) in some execution; names_at lists %s' % (
                                     name, pos, s, kind, sorted(alts) if isinstance(fresh, dict) and 'alts' in fresh else fresh)))
                continue
            if loc_err is not None:
                problems.append(('location-raises:%s' % type(loc_err).__name__, 'location() at %s %s: %r' % (name, pos, loc_err)))
            elif s not in locs:
                problems.append(('location-missing:%s:%s' % (kind, ctx),
                                 'location() from read %s at %s lists %s, not the run-time definition %s' % (name, pos, sorted(locs), s)))
            if s in unused:
                problems.append(('false-unused:%s:%s' % (unused[s], kind),
                                 'lint reports %s at %s although read %s at %s obtains that binding' % (unused[s], s, name, pos)))
    return problems, info


KNOWN_SIGS = {'C02-annotation-after-binding': lambda sig: sig == 'annotation-evaluated-after-binding',
              'C02-conditional-walrus': lambda sig: sig == 'conditional-walrus-shadows-definition',
              'C02-statement-split-by-comprehension': lambda sig: sig == 'statement-split-by-comprehension',
              'C02-finally-after-return': lambda sig: sig == 'finally-reached-through-return',
              'C02-star-before-keyword-walrus': lambda sig: sig == 'star-argument-evaluated-before-keyword-walrus',
              'C02-comprehension-own-iterable': lambda sig: sig == 'comprehension-variable-read-in-its-own-iterable'}
_listed = {e['id'] for e in core.load_known(PROPERTY) if e.get('status') == 'finding'}
KNOWN_SIGS = {k: v for k, v in KNOWN_SIGS.items() if k in _listed}
KNOWN = {fid: (lambda v, p=pred: p(v['signature'])) for fid, pred in KNOWN_SIGS.items()}


def classify_known(sig):
    for fid, pred in KNOWN_SIGS.items():
        if pred(sig):
            return fid
    return None


def w_programs(job):
    from vlib.gen.programs import programs
    idx, seed, n, cap = job
    sh = Shard()

    def prop(prog):
        probs, info = check_program(prog, cap)
        if info['skipped']:
            sh.count('discard:' + info['skipped'].split(':')[0])
            sh.case(prog['src'], False)
            return
        sh.case(prog['src'], info['nontrivial'] and info['checked_pairs'] > 0,
                {'src': prog['src'], 'package': prog['package'], 'executions': info['runs'], 'checked_pairs': info['checked_pairs']})
        sh.count('programs')
        sh.count('executions', info['runs'])
        sh.count('checked_pairs', info['checked_pairs'])
        sh.count('programs_exhaustive' if info['exhaustive'] else 'programs_capped')
        for f in prog['features']:
            sh.count('feat:' + f)
        for sig, detail in probs:
            fid = classify_known(sig)
            if fid:
                sh.known_hit(fid, {'src': prog['src'], 'package': prog['package'], 'detail': detail})
                continue
            if sig not in sh.excluded:
                raise Found(sig, {'src': prog['src'], 'package': prog['package'], 'features': prog['features']}, detail)

    def minimise(f):
        pkg = f.case.get('package', False)
        feats = f.case.get('features', [])

        def still(src):
            compile(src, '<min>', 'exec')
            probs, _ = check_program({'src': src, 'package': pkg, 'features': feats}, min(cap, 200))
            return any(sig == f.signature for sig, _ in probs)
        small = core.minimise_lines(f.case['src'], still)
        probs, _ = check_program({'src': small, 'package': pkg, 'features': feats}, cap)
        det = [dd for sig, dd in probs if sig == f.signature]
        return Found(f.signature, {'src': small, 'package': pkg, 'features': feats}, det[0] if det else f.detail)
    core.hyp_search(sh, prop, programs('c02'), seed, n, shrink=False, max_rounds=8, minimise=minimise, budget_s=60)
    return sh.result()


def run(run):
    dynref.selftest()
    n = run.pick(300, 4000)
    cap = run.pick(200, 3000)
    run.pmap(w_programs, [(i, core.derive_seed(run.seed, 'c02', i), n, cap) for i in range(16)])
    progs = run.counters.get('programs', 0)
    disc = sum(v for k, v in run.counters.items() if k.startswith('discard:'))
    run.extra['discard_rate'] = round(disc / max(1, progs + disc), 4)
    if progs and disc / (progs + disc) > 0.2:
        raise core.HarnessError('generator discard rate too high')


def replay(case):
    prog = {'src': case['src'], 'package': case.get('package', False), 'features': case.get('features', ['for', 'try'])}
    probs, info = check_program(prog, 3000)
    seen, out = set(), []
    for sig, detail in probs:
        if sig not in seen:
            seen.add(sig)
            out.append({'signature': sig, 'case': case, 'detail': detail})
    return out
