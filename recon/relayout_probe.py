"""Feasibility probe for the C13 layout-only printer (token level). Throw-away.

Re-emits a source from its token stream with random layout changes and keeps the
variant only if it parses to the same AST. Then compares lint diagnostics and
per-read visible names / definitions between original and variant.
"""
import ast, io, random, sys, tokenize, os, logging, warnings, collections, sysconfig
logging.disable(logging.CRITICAL)
warnings.simplefilter('ignore')

COMPOUND = {'if', 'for', 'while', 'try', 'with', 'def', 'class', 'async', 'else', 'elif', 'except', 'finally', 'match', 'case', '@'}


def logical_lines(src):
    """Split token stream into logical lines: (indent_level, [tokens])."""
    toks = list(tokenize.generate_tokens(io.StringIO(src).readline))
    lines = []
    cur = []
    level = 0
    for t in toks:
        if t.type == tokenize.INDENT:
            level += 1
            continue
        if t.type == tokenize.DEDENT:
            level -= 1
            continue
        if t.type in (tokenize.NL, tokenize.COMMENT, tokenize.ENDMARKER):
            if t.type == tokenize.NL and cur:
                continue   # newline inside brackets
            continue
        if t.type == tokenize.NEWLINE:
            if cur:
                lines.append([level, cur])
                cur = []
            continue
        cur.append(t)
    if cur:
        lines.append([level, cur])
    # DEDENT tokens come before the first token of the next line, but `level` when
    # we append is the level at NEWLINE time of that line: recompute using start col order
    return toks


def relayout(src, rnd):
    toks = list(tokenize.generate_tokens(io.StringIO(src).readline))
    out = []
    level = 0
    unit = rnd.choice([1, 2, 3, 4, 8])
    depth = 0
    line_start = True
    prev = None
    prev_line_simple = False
    cur_line_first = None
    pending_join = False
    i = 0
    n = len(toks)
    # group into logical lines first
    lines = []
    cur = []
    lvl = 0
    for t in toks:
        if t.type == tokenize.INDENT:
            lvl += 1
        elif t.type == tokenize.DEDENT:
            lvl -= 1
        elif t.type in (tokenize.NL, tokenize.COMMENT, tokenize.ENDMARKER):
            pass
        elif t.type == tokenize.NEWLINE:
            lines.append((cur_lvl, cur))
            cur = []
        else:
            if not cur:
                cur_lvl = lvl
            cur.append(t)
    if cur:
        lines.append((cur_lvl, cur))
    res = []
    k = 0
    while k < len(lines):
        lvl, ts = lines[k]
        text = emit(ts, rnd, lvl * unit)
        first = ts[0].string
        simple = first not in COMPOUND
        # join following simple statements at same level with ';'
        while simple and k + 1 < len(lines) and lines[k + 1][0] == lvl and lines[k + 1][1][0].string not in COMPOUND and rnd.random() < 0.3:
            k += 1
            text += rnd.choice(['; ', ';', ' ;  ']) + emit(lines[k][1], rnd, lvl * unit)
        # one-line compound: header ends with ':' and next line is deeper, simple, and the only line of its block
        if (not simple and ts[-1].string == ':' and first not in ('@',) and k + 1 < len(lines) and lines[k + 1][0] == lvl + 1
                and lines[k + 1][1][0].string not in COMPOUND and (k + 2 >= len(lines) or lines[k + 2][0] <= lvl) and rnd.random() < 0.4):
            k += 1
            text += ' ' + emit(lines[k][1], rnd, lvl * unit)
        if rnd.random() < 0.15:
            res.append('')
        if rnd.random() < 0.1:
            res.append(' ' * (lvl * unit) + '# c')
        res.append(' ' * (lvl * unit) + text + (rnd.choice(['', '  # t']) if rnd.random() < 0.1 else ''))
        k += 1
    return '\n'.join(res) + '\n'


def emit(ts, rnd, base_indent):
    parts = []
    depth = 0
    prev = None
    for t in ts:
        s = t.string
        if prev is not None:
            # original adjacency
            adjacent = (prev.end == t.start)
            sep = '' if adjacent else ' '
            if depth > 0 and rnd.random() < 0.15 and t.type != tokenize.FSTRING_MIDDLE and prev.type not in (tokenize.FSTRING_START, tokenize.FSTRING_MIDDLE) and not in_fstring(parts_f):
                sep = '\n' + ' ' * (base_indent + rnd.randint(0, 12))
            elif not adjacent and rnd.random() < 0.1:
                sep = '  '
            parts.append(sep)
        if t.type == tokenize.OP and s in '([{':
            depth += 1
        elif t.type == tokenize.OP and s in ')]}':
            depth -= 1
        if t.type == tokenize.FSTRING_START:
            parts_f.append(1)
        elif t.type == tokenize.FSTRING_END:
            parts_f.pop()
        parts.append(s)
        prev = t
    return ''.join(parts)


parts_f = []


def in_fstring(st):
    return bool(st)


def summary(src, fn):
    from supp.project import Project
    from supp.linter import lint
    from supp.util import Source, get_name_usages, np
    from supp.nast import extract_scope
    from supp.name import MultiName
    P = Project(['/nonexistent'])
    diags = [(r[0], r[1]) for r in lint(P, src, fn)]
    s = Source(src, fn)
    tree = s.tree
    # ordinal of every Name/arg/alias/def node in AST order, keyed by position
    order = {}
    i = 0
    for t in tokenize.generate_tokens(io.StringIO(src).readline):
        if not (t.type == tokenize.NAME or t.string == '*'):
            continue
        order[t.start] = i
        i += 1
    extract_scope(s, P)
    reads = []
    for n in get_name_usages(tree):
        if not hasattr(n, 'flow'):
            reads.append((n.id, 'E42'))
            continue
        names = n.flow.names_at(np(n))
        v = names.get(n.id)
        if v is None:
            d = None
        else:
            alts = v.alt_names if isinstance(v, MultiName) else [v]
            d = sorted(str(order.get(getattr(a, 'declared_at', None), getattr(a, 'declared_at', 'U'))) if not isinstance(a, str) else 'UNDEF' for a in alts)
        reads.append((n.id, d, tuple(sorted(k for k in names if k not in BUILTINS))))
    return diags, reads


import builtins
BUILTINS = set(dir(builtins))

if __name__ == '__main__':
    stdlib = sysconfig.get_paths()['stdlib']
    files = [os.path.join(stdlib, f) for f in sorted(os.listdir(stdlib)) if f.endswith('.py')]
    files += ['/repo/supp/' + f for f in os.listdir('/repo/supp') if f.endswith('.py')]
    rnd = random.Random(int(sys.argv[1]) if len(sys.argv) > 1 else 0)
    rnd.shuffle(files)
    stats = collections.Counter()
    for fn in files[:int(sys.argv[2]) if len(sys.argv) > 2 else 40]:
        src = open(fn, encoding='utf-8').read()
        try:
            tree = ast.parse(src)
        except SyntaxError:
            continue
        try:
            base = summary(src, fn)
        except Exception as e:
            stats['base-exc'] += 1
            continue
        for v in range(3):
            del parts_f[:]
            try:
                var = relayout(src, rnd)
                ok = ast.dump(ast.parse(var)) == ast.dump(tree)
            except Exception as e:
                stats['variant-invalid'] += 1
                continue
            if not ok:
                stats['variant-different-ast'] += 1
                continue
            stats['variants'] += 1
            try:
                got = summary(var, fn)
            except Exception as e:
                stats['var-exc'] += 1
                print('EXC on variant', fn, type(e).__name__, e)
                continue
            if got[0] != base[0]:
                stats['diag-diff'] += 1
                a, b = collections.Counter(base[0]), collections.Counter(got[0])
                print('DIAG', fn, list((a - b).items())[:3], list((b - a).items())[:3])
            elif got[1] != base[1]:
                stats['read-diff'] += 1
                for x, y in zip(base[1], got[1]):
                    if x != y:
                        print('READ', fn, x[:2], y[:2], sorted(set(x[2]) ^ set(y[2]))[:5] if len(x) > 2 and len(y) > 2 else '')
                        break
    print(dict(stats))
