import os, sys, random, tempfile, shutil, importlib, importlib.util, importlib.machinery, collections, logging
logging.disable(logging.CRITICAL)
from supp.project import Project

def ref_find(name, roots):
    """importlib reference: origin file for dotted absolute name, or None"""
    path = list(roots) + sys.path
    parts = name.split('.')
    spec = None
    search = path
    for i in range(len(parts)):
        sub = '.'.join(parts[:i+1])
        spec = importlib.machinery.PathFinder.find_spec(sub, search)
        if spec is None:
            return None
        if i < len(parts) - 1:
            if spec.submodule_search_locations is None:
                return None
            search = list(spec.submodule_search_locations)
    return spec

rnd = random.Random(int(sys.argv[1]) if len(sys.argv) > 1 else 0)
NAMES = ['a', 'b', 'c', 'json', 'os']
def gen_tree(base, nroots):
    roots = []
    for r in range(nroots):
        root = os.path.join(base, 'r%d' % r); os.makedirs(root); roots.append(root)
        def fill(d, depth):
            for nm in rnd.sample(NAMES, rnd.randint(0, 3)):
                k = rnd.random()
                if k < 0.5 or depth >= 3:
                    open(os.path.join(d, nm + '.py'), 'w').write('x = 1\n')
                else:
                    pd = os.path.join(d, nm); os.makedirs(pd)
                    open(os.path.join(pd, '__init__.py'), 'w').write('')
                    fill(pd, depth + 1)
        fill(root, 0)
    return roots

diffs = collections.Counter()
examples = {}
total = 0
for case in range(300):
    base = tempfile.mkdtemp(prefix='c07_')
    try:
        roots = gen_tree(base, rnd.randint(1, 3))
        importlib.invalidate_caches()
        P = Project(roots)
        # candidate names
        cands = set()
        for root in roots:
            for dp, dn, fn in os.walk(root):
                rel = os.path.relpath(dp, root)
                pk = [] if rel == '.' else rel.split(os.sep)
                for f in fn:
                    if f.endswith('.py'):
                        m = f[:-3]
                        cands.add('.'.join(pk + ([] if m == '__init__' else [m])))
        cands.discard('')
        extra = set()
        for c in list(cands):
            extra.add(c + '.zz'); extra.add(c + '.a')
        for name in sorted(cands | extra | {'zz', 'json.decoder', 'math', '_bisect', 'xml.dom'}):
            total += 1
            spec = ref_find(name, roots)
            ref = None
            if spec is not None:
                ref = spec.origin
            try:
                m = P.get_module(name)
                got = getattr(m, 'filename', None) or getattr(getattr(m, 'module', None), '__file__', 'NOFILE')
            except ImportError:
                got = None
            except Exception as e:
                got = 'EXC ' + type(e).__name__
            if ref in ('built-in', 'frozen'):
                continue
            if got != ref:
                kind = ('supp=None' if got is None else 'supp=file' if not str(got).startswith('EXC') else got, 'ref=None' if ref is None else 'ref=file')
                diffs[kind] += 1
                examples.setdefault(kind + (name.count('.'),), (name, got, ref, base))
    finally:
        if not any(e[3] == base for e in examples.values()):
            shutil.rmtree(base)
print('total', total, dict(diffs))
for k, v in examples.items(): print(k, v)
