import os, time, logging
logging.disable(logging.CRITICAL)
from supp.project import Project
from supp.assistant import assist, location
from supp.linter import lint
R = '/tmp/recon/proj9'
t = [1000000000]
def w(name, content):
    fn = os.path.join(R, name)
    open(fn, 'w').write(content)
    t[0] += 10
    os.utime(fn, (t[0], t[0]))
w('b.py', 'class K:\n    one = 1\nfoo = 1\n')
w('a.py', 'from b import *\nfrom b import K\n')
w('c.py', 'from a import *\n')
P = Project([R])
def req(label):
    src = 'import a, c\na.K.\nc.\na.\n'
    with P.check_changes():
        r1 = assist(P, 'import a\na.K.', (2, 4), R + '/main.py')
    with P.check_changes():
        r2 = assist(P, 'import c\nc.', (2, 2), R + '/main.py')
    with P.check_changes():
        r3 = assist(P, 'from c import *\n', (2, 0), R + '/main.py')
    F = Project([R])
    f1 = assist(F, 'import a\na.K.', (2, 4), R + '/main.py')
    f2 = assist(F, 'import c\nc.', (2, 2), R + '/main.py')
    f3 = assist(F, 'from c import *\n', (2, 0), R + '/main.py')
    flt = lambda r: [x for x in r[1] if not x.startswith('__') and x not in dir(__builtins__)]
    print(label, 'K attrs same:', flt(r1) == flt(f1), flt(r1), flt(f1))
    print(label, 'c attrs same:', flt(r2) == flt(f2), flt(r2), flt(f2))
    print(label, 'star same:', flt(r3) == flt(f3), flt(r3), flt(f3))
req('init')
w('b.py', 'class K:\n    one = 1\n    two = 2\nfoo = 1\nbar = 2\n')
req('edit b')
w('a.py', 'from b import *\nfrom b import K\nzed = 1\n')
req('edit a')
