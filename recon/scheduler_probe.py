"""C16 feasibility: deterministic line-level scheduler over supp.remote.Environment with fakes."""
import sys, threading, collections
import supp.remote as R
REMOTE_FILE = R.__file__
class Deadlock(Exception): pass
_tls = threading.local()

class Sched:
    def __init__(self, schedule):
        self.schedule = list(schedule)
        self.threads = collections.OrderedDict()
        self.back = threading.Semaphore(0)
        self.lock_owner = None
        self.popen = 0
        self.choices = []
        self.trace = []
        self.last = None
    def yield_point(self):
        st = self.threads[_tls.tid]
        self.back.release()
        st['go'].acquire()
    def tracer(self):
        def local(frame, event, arg):
            if event == 'line':
                self.threads[_tls.tid]['line'] = frame.f_lineno
                self.yield_point()
            return local
        def glob(frame, event, arg):
            if frame.f_code.co_filename == REMOTE_FILE:
                return local
        return glob
    def spawn(self, tid, fn):
        st = {'done': False, 'blocked': None, 'exc': None, 'line': None, 'go': threading.Semaphore(0)}
        self.threads[tid] = st
        def body():
            _tls.tid = tid
            st['go'].acquire()          # wait for first scheduling (no back signal: nobody waits for us)
            sys.settrace(self.tracer())
            try:
                fn()
            except BaseException as e:
                st['exc'] = e
            finally:
                sys.settrace(None)
                st['done'] = True
                self.back.release()
        threading.Thread(target=body, daemon=True).start()
    def enabled(self):
        out = []
        for tid, st in self.threads.items():
            if st['done']: continue
            b = st['blocked']
            if b is None or (b[0] == 'lock' and self.lock_owner is None) or (b[0] == 'join' and self.threads[b[1]]['done']):
                out.append(tid)
        return out
    def run(self):
        step = 0
        while True:
            en = self.enabled()
            if not en:
                if all(st['done'] for st in self.threads.values()): return
                raise Deadlock([(t, s['blocked'], s['line']) for t, s in self.threads.items() if not s['done']])
            if step < len(self.schedule): k = self.schedule[step] % len(en)
            else: k = en.index(self.last) if self.last in en else 0
            self.choices.append((len(en), k, en.index(self.last) if self.last in en else 0))
            step += 1
            tid = en[k]; self.last = tid
            self.trace.append((tid, self.threads[tid]['line']))
            self.threads[tid]['go'].release()
            if not self.back.acquire(timeout=10): raise RuntimeError('harness timeout')

def make_env(s):
    class FLock:
        def __enter__(self_):
            tid = _tls.tid
            while s.lock_owner is not None:
                s.threads[tid]['blocked'] = ('lock',)
                s.yield_point()
            s.threads[tid]['blocked'] = None
            s.lock_owner = tid
        def __exit__(self_, *a):
            s.lock_owner = None
    class FThread:
        def __init__(self_, target): self_.target = target
        def start(self_):
            self_.tid = 'S%d' % (len(s.threads))
            s.spawn(self_.tid, self_.target)
        def join(self_):
            tid = _tls.tid
            while not s.threads[self_.tid]['done']:
                s.threads[tid]['blocked'] = ('join', self_.tid)
                s.yield_point()
            s.threads[tid]['blocked'] = None
    class FConn:
        def send_bytes(self_, b): self_.last = R.loads(b)
        def recv_bytes(self_): return R.dumps((self_.last[0], True))
        def close(self_): pass
    env = R.Environment()
    env.prepare_lock = FLock()
    def fake_run():
        s.popen += 1
        env.proc = object()
        env.conn = FConn()
    env._run = fake_run
    return env, FThread

def run_schedule(schedule, ops):
    s = Sched(schedule)
    env, FThread = make_env(s)
    R.Thread = FThread
    for i, op in enumerate(ops):
        s.spawn('T%d' % i, lambda op=op: getattr(env, op[0])(*op[1:]))
    try:
        s.run()
    except Deadlock as e:
        return s, 'deadlock %s' % e
    excs = {t: repr(st['exc']) for t, st in s.threads.items() if st['exc']}
    if excs: return s, 'exc %r' % excs
    if s.popen != 1: return s, 'popen=%d' % s.popen
    return s, None

if __name__ == '__main__':
    import time
    ops = [('prepare',), ('lint', 'x', 'f.py')] + ([('assist', 's', (1, 0), 'f.py')] if len(sys.argv) > 1 else [])
    found = collections.Counter(); nsched = 0
    stack = [[]]; seen = set(); t0 = time.time()
    BOUND = 2
    while stack:
        pre = stack.pop()
        s, err = run_schedule(pre, ops)
        nsched += 1
        if err:
            key = err[:70]
            if key not in found: print('FOUND', err, 'schedule', pre, 'trace', s.trace[-10:])
            found[key] += 1
        for i in range(len(pre), len(s.choices)):
            n, k, dflt = s.choices[i]
            for alt in range(n):
                if alt != k:
                    new = [c[1] for c in s.choices[:i]] + [alt]
                    npre = sum(1 for j, c in enumerate(new) if c != s.choices[j][2])
                    if npre <= BOUND and tuple(new) not in seen:
                        seen.add(tuple(new)); stack.append(new)
    print('schedules', nsched, dict(found), 'time', round(time.time() - t0, 1))
