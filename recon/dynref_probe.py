"""Feasibility probe for the dynref oracle (DESIGN.md 3.1). Throw-away prototype.

Instruments a program at AST level so that CPython itself reports, for each
identifier read, whether it succeeded and which binding site supplied the value,
and enumerates every sequence of branch / trip-count / raise decisions.
Covers only a subset of the grammar (enough to validate the approach).
"""
import ast, sys, builtins

HELPERS = {'risky'}


class Tag:
    __slots__ = ('site', 'v')

    def __init__(self, site, v=None):
        self.site = site
        self.v = v

    def __call__(self, *a, **k):
        v = self.v
        if callable(v):
            return v(*a, **k)
        return Tag(None)

    def __getattr__(self, n):
        v = self.v
        if v is not None and hasattr(v, n):
            return getattr(v, n)
        return Tag(None)

    def __get__(self, obj, cls=None):
        v = self.v
        if hasattr(v, '__get__'):
            return Tag(self.site, v.__get__(obj, cls))
        return self

    def __repr__(self):
        return 'Tag(%r)' % (self.site,)


def unwrap(x):
    while isinstance(x, Tag) and x.v is not None:
        x = x.v
    return x


class NeedDecision(Exception):
    pass


class Abort(Exception):
    pass


class Runtime:
    def __init__(self, prefix, mode):
        self.prefix = prefix
        self.pos = 0
        self.arities = []
        self.events = []   # (read_id, 'ok'|'unbound', site)
        self.mode = mode

    def decide(self, arity):
        if self.pos < len(self.prefix):
            c = self.prefix[self.pos]
        else:
            c = 0
        self.arities.append(arity)
        self.pos += 1
        return c

    # injected helpers
    def T(self, site, v):
        return Tag(site, v)

    def R(self, rid, thunk):
        try:
            v = thunk()
        except NameError:
            self.events.append((rid, 'unbound', None))
            if self.mode == 'abort':
                raise
            return Tag(None)
        self.events.append((rid, 'ok', v.site if isinstance(v, Tag) else 'untagged'))
        return v

    def RC(self, rid, name, ns, thunk):
        if name in ns:
            v = ns[name]
            self.events.append((rid, 'ok', v.site if isinstance(v, Tag) else 'untagged'))
            return v
        return self.R(rid, thunk)

    def C(self, v):
        return bool(self.decide(2))

    def W0(self, k):
        self.trips = getattr(self, 'trips', {})
        self.trips[k] = 0

    def W(self, k, v):
        if self.trips[k] >= 2:
            return False
        r = bool(self.decide(2))
        if r:
            self.trips[k] += 1
        return r

    def IT(self, shape, v):
        n = self.decide(3)
        for _ in range(n):
            yield self.shape_value(shape)

    def shape_value(self, shape):
        if shape is None:
            return Tag(None)
        return tuple(self.shape_value(s) for s in shape)

    def risky(self):
        if self.decide(2):
            raise ValueError('risky')
        return Tag(None)


def target_names(t, out):
    if isinstance(t, ast.Name):
        out.append(t)
    elif isinstance(t, (ast.Tuple, ast.List)):
        for e in t.elts:
            target_names(e, out)
    elif isinstance(t, ast.Starred):
        target_names(t.value, out)
    return out


def shape_of(t):
    if isinstance(t, (ast.Tuple, ast.List)):
        return tuple(shape_of(e) for e in t.elts)
    return None


def call(name, *args):
    return ast.Call(ast.Name('_vrt_' + name, ast.Load()), list(args), [])


def const(v):
    return ast.Constant(v)


def site_of(node):
    return (node.lineno, node.col_offset)


class Instrument(ast.NodeTransformer):
    def __init__(self, src):
        self.reads = {}       # rid -> (line, col, name)
        self.sites = {}       # site -> name
        self.scope = ['module']
        self.lines = src.splitlines()

    def retag(self, names_sites):
        out = []
        for name, site in names_sites:
            self.sites[site] = name
            out.append(ast.Assign([ast.Name(name, ast.Store())],
                                  call('T', const(site), ast.Name(name, ast.Load()))))
        return out

    def visit_Name(self, node):
        if isinstance(node.ctx, ast.Load) and not node.id.startswith('_vrt_'):
            if node.id in HELPERS:
                return ast.Attribute(ast.Name('_vrt', ast.Load()), node.id, ast.Load())
            rid = len(self.reads)
            self.reads[rid] = (node.lineno, node.col_offset, node.id)
            thunk = ast.Lambda(ast.arguments([], [], None, [], [], None, []), ast.Name(node.id, ast.Load()))
            if self.scope[-1] == 'class':
                return call('RC', const(rid), const(node.id), ast.Call(ast.Name('locals', ast.Load()), [], []), thunk)
            return call('R', const(rid), thunk)
        return node

    def body(self, stmts):
        out = []
        for s in stmts:
            r = self.visit(s)
            if isinstance(r, list):
                out.extend(r)
            else:
                out.append(r)
        return out

    def visit_Assign(self, node):
        node.value = self.visit(node.value)
        names = []
        for t in node.targets:
            target_names(t, names)
        if len(node.targets) == 1 and isinstance(node.targets[0], ast.Name):
            n = node.targets[0]
            self.sites[site_of(n)] = n.id
            node.value = call('T', const(site_of(n)), node.value)
            return node
        return [node] + self.retag([(n.id, site_of(n)) for n in names])

    def visit_If(self, node):
        node.test = call('C', self.visit(node.test))
        node.body = self.body(node.body)
        node.orelse = self.body(node.orelse)
        return node

    def visit_While(self, node):
        # bounded at 2 trips: while C(test) and trips < 2
        self.nwhile = getattr(self, 'nwhile', 0) + 1
        node.test = call('W', const(self.nwhile), self.visit(node.test))
        node.body = self.body(node.body)
        node.orelse = self.body(node.orelse)
        return [ast.Expr(call('W0', const(self.nwhile))), node]

    def visit_For(self, node):
        names = target_names(node.target, [])
        node.iter = call('IT', const(shape_of(node.target)), self.visit(node.iter))
        node.body = self.retag([(n.id, site_of(n)) for n in names]) + self.body(node.body)
        node.orelse = self.body(node.orelse)
        return node

    def visit_Try(self, node):
        node.body = self.body(node.body)
        for h in node.handlers:
            if h.type is not None:
                h.type = ast.Name(ast.unparse(h.type), ast.Load())  # builtin exception classes: leave untouched
            pre = self.retag([(h.name, site_of(h))]) if h.name else []
            h.body = pre + self.body(h.body)
        node.orelse = self.body(node.orelse)
        node.finalbody = self.body(node.finalbody)
        return node

    def visit_FunctionDef(self, node):
        node.decorator_list = [self.visit(d) for d in node.decorator_list]
        a = node.args
        a.defaults = [self.visit(d) for d in a.defaults]
        a.kw_defaults = [self.visit(d) if d else d for d in a.kw_defaults]
        params = a.posonlyargs + a.args + ([a.vararg] if a.vararg else []) + a.kwonlyargs + ([a.kwarg] if a.kwarg else [])
        self.scope.append('function')
        pre = self.retag([(p.arg, site_of(p)) for p in params])
        node.body = [s for s in node.body if isinstance(s, (ast.Global, ast.Nonlocal))] + pre + \
            self.body([s for s in node.body if not isinstance(s, (ast.Global, ast.Nonlocal))])
        self.scope.pop()
        line = self.lines[node.lineno - 1]
        col = line.index('def ' + node.name, node.col_offset) + 4
        return [node] + self.retag([(node.name, (node.lineno, col))])

    def visit_ClassDef(self, node):
        node.bases = [call('U', self.visit(b)) for b in node.bases]
        self.scope.append('class')
        node.body = self.body(node.body)
        self.scope.pop()
        line = self.lines[node.lineno - 1]
        col = line.index('class ' + node.name, node.col_offset) + 6
        return [node] + self.retag([(node.name, (node.lineno, col))])

    def visit_Lambda(self, node):
        self.scope.append('function')
        node.body = self.visit(node.body)
        self.scope.pop()
        return node

    def visit_Return(self, node):
        if node.value:
            node.value = self.visit(node.value)
        return node

    def visit_Expr(self, node):
        node.value = self.visit(node.value)
        return node


def run_all(src, mode='abort', cap=2000):
    tree = ast.parse(src)
    ins = Instrument(src)
    new = ast.Module(ins.body(tree.body), [])
    ast.fix_missing_locations(new)
    code = compile(new, '<dynref>', 'exec')
    results = {}   # rid -> set of (outcome, site)
    stack = [[]]
    runs = 0
    exhaustive = True
    while stack:
        if runs >= cap:
            exhaustive = False
            break
        prefix = stack.pop()
        rt = Runtime(prefix, mode)
        g = {'_vrt': rt, '_vrt_T': rt.T, '_vrt_R': rt.R, '_vrt_RC': rt.RC, '_vrt_C': rt.C,
             '_vrt_IT': rt.IT, '_vrt_W': rt.W, '_vrt_W0': rt.W0, '_vrt_U': unwrap, '__name__': 'dynref_main', 'print': lambda *a, **k: None,
             'use': lambda *a, **k: Tag(None)}
        runs += 1
        try:
            exec(code, g)
        except NameError:
            pass
        except ValueError as e:
            if str(e) != 'risky':
                raise
        for rid, oc, site in rt.events:
            results.setdefault(rid, set()).add((oc, site))
        for i in range(len(prefix), len(rt.arities)):
            for alt in range(1, rt.arities[i]):
                stack.append(prefix + [0] * (i - len(prefix)) + [alt])
    return ins, results, runs, exhaustive


def supp_view(src):
    import logging
    logging.disable(logging.CRITICAL)
    from supp.project import Project
    from supp.util import Source, get_name_usages, np
    from supp.nast import extract_scope
    from supp.name import MultiName, UndefinedName
    s = Source(src, '/nonexistent/x.py')
    view = {}
    for n in get_name_usages(s.tree):
        # fresh analysis per read: keeps the query-order defect (C04) out of this probe
        s2 = Source(src, '/nonexistent/x.py')
        extract_scope(s2, Project(['/nonexistent']))
        m = [x for x in get_name_usages(s2.tree) if np(x) == np(n)][0]
        if not hasattr(m, 'flow'):
            view[np(n) + (n.id,)] = 'E42'
            continue
        v = m.flow.names_at(np(m)).get(m.id)
        if v is None:
            view[np(n) + (n.id,)] = None
        elif isinstance(v, MultiName):
            view[np(n) + (n.id,)] = (sorted(getattr(a, 'declared_at', (0, 0)) for a in v.valid_names), v.has_undefined)
        else:
            view[np(n) + (n.id,)] = ([getattr(v, 'declared_at', (0, 0))], False)
    return view


def compare(src, mode='continue'):
    ins, results, runs, exhaustive = run_all(src, mode)
    view = supp_view(src)
    print('--- runs=%d exhaustive=%s' % (runs, exhaustive))
    print(src.rstrip())
    for rid, (l, c, name) in sorted(ins.reads.items()):
        if name in dir(builtins) or name in ('use',):
            continue
        dyn = results.get(rid, set())
        dsites = sorted(s for oc, s in dyn if oc == 'ok')
        dunb = any(oc == 'unbound' for oc, s in dyn)
        sv = view.get((l, c, name))
        flag = ''
        if not dyn:
            flag = 'unreached'
        elif sv in (None, 'E42'):
            flag = 'C01!' if dsites else ''
        else:
            missing = [s for s in dsites if s not in sv[0]]
            phantom = [s for s in sv[0] if s not in dsites]
            if missing:
                flag += ' C02-missing%s' % missing
            if phantom and exhaustive:
                flag += ' C03-phantom%s' % phantom
            if sv[1] != dunb and exhaustive:
                flag += ' C03-undef(supp=%s dyn=%s)' % (sv[1], dunb)
        print('   %s@%d:%d dyn=%s unbound=%s supp=%s %s' % (name, l, c, dsites, dunb, sv, flag))


if __name__ == '__main__':
    compare('x = 1\nif c:\n    x = 2\nuse(x)\n')
    compare('def f(a):\n    if a:\n        y = 1\n        return y\n    return y\nf(1)\n')
    compare('def f(a):\n    if a:\n        y = 1\n        return 0\n    z = 2\n    use(y, z)\nf(1)\n')
    compare('x = 0\nfor i in r:\n    if i:\n        use(x)\n    x = i\nuse(x)\n')
    compare('go = 1\nwhile go:\n    go = use()\n')
    compare('try:\n    risky()\n    a = 1\nexcept ValueError as e:\n    b = e\nelse:\n    c = a\nfinally:\n    d = 1\nuse(a, b, c, d)\n')
    compare('class A:\n    x = 1\n    y = x\n    def m(self):\n        return x\nA().m()\n')
    compare('def f(p, /, q, *, k=1):\n    return p, q, k\nf(1, 2)\n')
    compare('for a, (b, c) in r:\n    use(a, b, c)\nelse:\n    a = 0\nuse(a)\n')
