from textwrap import dedent
import ast
from supp.linter import lint
from supp.project import Project
from supp.assistant import assist, location
from supp.util import Source, get_name_usages, np
from supp.nast import extract_scope
from supp.name import MultiName
P = Project(['/tmp/recon/proj'])
def show(src, order=None):
    src = dedent(src).lstrip('\n')
    s = Source(src, '/tmp/recon/proj/x.py')
    scope = extract_scope(s, P)
    reads = get_name_usages(s.tree)
    if order == 'rev': reads = reads[::-1]
    print('---'); print(src.rstrip())
    for n in reads:
        if not hasattr(n, 'flow'):
            print('  ', n.id, np(n), 'NOFLOW'); continue
        v = n.flow.names_at(np(n)).get(n.id)
        if isinstance(v, MultiName):
            d = sorted((getattr(a, 'declared_at', 'UNDEF') if not isinstance(a, str) else 'UNDEF') for a in v.alt_names) if False else [ (a.declared_at if hasattr(a,'declared_at') else 'UNDEF') for a in v.alt_names]
        elif v is None: d = None
        else: d = getattr(v, 'declared_at', repr(v))
        print('  ', n.id, np(n), '->', d)

show('''
x = 0
for i in range(3):
    if i:
        print(x)
    x = i
print(x)
''')
show('''
x = 0
for i in range(3):
    if i:
        print(x)
    x = i
print(x)
''', 'rev')
show('''
x = 0
while x:
    print(x)
    x = 1
else:
    x = 2
print(x)
''')
show('''
for i in a:
    for j in b:
        print(k)
        k = 1
    print(k)
print(k)
''')
show('''
try:
    a = 1
    b = 2
except E:
    print(a, b)
    c = 3
else:
    d = 4
finally:
    print(a, c, d)
    e = 5
print(a, b, c, d, e)
''')
src = dedent('''
x = 0
for i in range(3):
    if i:
        print(x)
    x = i
''').lstrip('\n')
print(location(P, src, (4, 15), '/tmp/recon/proj/x.py'))
print([r[:4] for r in lint(P, src, '/tmp/recon/proj/x.py')])
