"""C09 classifier feasibility: long-lived P vs fresh F vs 'minimally repaired' P2 (evict transitive importers of edited modules)."""
import os, logging, re
logging.disable(logging.CRITICAL)
from supp.project import Project
from supp.assistant import assist
R = '/tmp/recon/proj9'
clock = [1000000000]
def w(name, content):
    fn = os.path.join(R, name); open(fn, 'w').write(content)
    clock[0] += 10; os.utime(fn, (clock[0], clock[0]))
def imports_of(name):
    src = open(os.path.join(R, name + '.py')).read()
    return set(re.findall(r'^(?:from|import) (\w+)', src, re.M))
def importers_closure(edited, mods):
    out = set(edited); changed = True
    while changed:
        changed = False
        for m in mods:
            if m not in out and imports_of(m) & out: out.add(m); changed = True
    return out
w('b', '') if False else None
w('b.py', 'class K:\n    one = 1\nfoo = 1\n')
w('a.py', 'from b import *\nfrom b import K\n')
w('c.py', 'from a import *\nimport a\n')
mods = ['a', 'b', 'c']
P = Project([R]); P2 = Project([R])
pending = set()
def flt(r): return [x for x in r[1] if not x.startswith('__') and x not in dir(__builtins__)]
def req(label, src, pos):
    global pending
    for m in (importers_closure(pending, mods) - pending) if pending else ():  # proper importers only
        P2._module_cache.pop(m, None)
    pending = set()
    with P.check_changes(): r = flt(assist(P, src, pos, R + '/main.py'))
    with P2.check_changes(): r2 = flt(assist(P2, src, pos, R + '/main.py'))
    f = flt(assist(Project([R]), src, pos, R + '/main.py'))
    print('%-28s long=%-26s repaired=%-26s fresh=%-26s %s' % (label, r, r2, f, 'OK' if r == f else ('KNOWN#17' if r2 == f else 'NEW')))
Q = [('b direct', 'import b\nb.', (2, 2)), ('K via a', 'import a\na.K.', (2, 4)), ('c star', 'from c import *\n', (2, 0)), ('c.a.K', 'import c\nc.a.K.', (2, 6))]
for l, s, p in Q: req('init ' + l, s, p)
w('b.py', 'class K:\n    one = 1\n    two = 2\nfoo = 1\nbar = 2\n'); pending.add('b')
for l, s, p in Q: req('edit-b ' + l, s, p)
w('a.py', 'from b import *\nfrom b import K\nzed = 1\n'); pending.add('a')
for l, s, p in Q: req('edit-a ' + l, s, p)
