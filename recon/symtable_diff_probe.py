"""C05 prototype: compare supp's resolved binding scopes with symtable."""
import ast, symtable, os, sys, collections, logging, sysconfig, warnings
logging.disable(logging.CRITICAL); warnings.simplefilter('ignore')
from supp.project import Project
from supp.util import Source, np
from supp.nast import extract_scope
from supp.name import MultiName, UndefinedName, RuntimeName
from supp.scope import FuncScope, ClassScope, SourceScope

class ScopeMap(ast.NodeVisitor):
    """Walk AST mirroring symtable.c order; assign each Name(Load) the symtable block it is evaluated in."""
    def __init__(self, top):
        self.stack = [(top, iter_children(top))]
        self.reads = []   # (node, table)
        self.blocks = {}  # ast scope node -> table
    @property
    def cur(self): return self.stack[-1][0]
    def enter(self, node, name):
        tab, it = self.stack[-1]
        child = next(it)
        assert child.get_name() == name, (child.get_name(), name, getattr(node, 'lineno', None))
        self.blocks[node] = child
        self.stack.append((child, iter_children(child)))
    def leave(self): 
        tab, it = self.stack.pop()
        rest = list(it)
        assert not rest, ('unvisited children', tab.get_name(), [r.get_name() for r in rest])
    def visit_Name(self, node):
        if isinstance(node.ctx, ast.Load):
            self.reads.append((node, self.cur))
    def _args(self, args):
        for d in args.defaults: self.visit(d)
        for d in args.kw_defaults:
            if d: self.visit(d)
    def _annots(self, args, returns=None):
        for a in args.posonlyargs + args.args: 
            if a.annotation: self.visit(a.annotation)
        if args.vararg and args.vararg.annotation: self.visit(args.vararg.annotation)
        for a in args.kwonlyargs:
            if a.annotation: self.visit(a.annotation)
        if args.kwarg and args.kwarg.annotation: self.visit(args.kwarg.annotation)
        if returns: self.visit(returns)
    def visit_FunctionDef(self, node):
        if getattr(node, 'type_params', None): raise Unsupported('type params')
        self._args(node.args)
        for d in node.decorator_list: self.visit(d)
        self._annots(node.args, node.returns)
        self.enter(node, node.name)
        for s in node.body: self.visit(s)
        self.leave()
    visit_AsyncFunctionDef = visit_FunctionDef
    def visit_Lambda(self, node):
        self._args(node.args)
        self.enter(node, 'lambda')
        self.visit(node.body)
        self.leave()
    def visit_ClassDef(self, node):
        if getattr(node, 'type_params', None): raise Unsupported('type params')
        for d in node.decorator_list: self.visit(d)
        for b in node.bases: self.visit(b)
        for k in node.keywords: self.visit(k.value)
        self.enter(node, node.name)
        for s in node.body: self.visit(s)
        self.leave()
    def _comp(self, node, name, elts):
        gens = node.generators
        self.visit(gens[0].iter)
        nxt = self.stack[-1][1].peek()
        if name != 'genexpr' and not (nxt is not None and nxt.get_name() == name and nxt.get_lineno() == node.lineno):
            # inlined comprehension (PEP 709)
            self.visit(gens[0].target)
            for i in gens[0].ifs: self.visit(i)
            for g in gens[1:]:
                self.visit(g.target); self.visit(g.iter)
                for i in g.ifs: self.visit(i)
            for e in elts: self.visit(e)
            return
        self.enter(node, name)
        self.visit(gens[0].target)
        for i in gens[0].ifs: self.visit(i)
        for g in gens[1:]:
            self.visit(g.target); self.visit(g.iter)
            for i in g.ifs: self.visit(i)
        for e in elts: self.visit(e)
        self.leave()
    def visit_ListComp(self, node): self._comp(node, 'listcomp', [node.elt])
    def visit_SetComp(self, node): self._comp(node, 'setcomp', [node.elt])
    def visit_GeneratorExp(self, node): self._comp(node, 'genexpr', [node.elt])
    def visit_DictComp(self, node): self._comp(node, 'dictcomp', [node.key, node.value])
    def visit_TypeAlias(self, node): raise Unsupported('type alias')
    def visit_Match(self, node): raise Unsupported('match')
    def visit_TryStar(self, node): raise Unsupported('try*')
    def visit_Delete(self, node): 
        self.generic_visit(node)

class Unsupported(Exception): pass
class Peek:
    def __init__(self, items): self.items = list(items); self.i = 0
    def __iter__(self): return self
    def __next__(self):
        if self.i >= len(self.items): raise StopIteration
        self.i += 1; return self.items[self.i-1]
    def peek(self): return self.items[self.i] if self.i < len(self.items) else None
def iter_children(tab): return Peek(tab.get_children())

def owner_kind(tab, name):
    """Return ('local', table) / ('free', owner table) / ('global', None) per CPython for name read in block tab. Comprehension blocks are transparent."""
    try:
        sym = tab.lookup(name)
    except KeyError:
        return ('?', None)
    if tab.get_type() == 'module':
        return ('global', None)
    if sym.is_global():  # explicit or implicit
        return ('global', None)
    if sym.is_local() and not sym.is_free():
        return ('local', tab)
    if sym.is_free():
        return ('free', None)
    return ('?', None)

def main(files):
    P = Project(['/tmp/recon/proj'])
    stats = collections.Counter(); ex = collections.defaultdict(list)
    for fn in files:
        try:
            src = open(fn, encoding='utf-8').read()
            tree = ast.parse(src, fn)
            top = symtable.symtable(src, fn, 'exec')
        except Exception:
            continue
        s = Source(src, fn); s.tree = tree
        try:
            scope = extract_scope(s, P)
        except Exception as e:
            stats['extract-crash'] += 1; continue
        sm = ScopeMap(top)
        try:
            sm.visit(tree)
        except Unsupported as e:
            stats['unsupported'] += 1; continue
        except (AssertionError, StopIteration) as e:
            stats['walk-mismatch'] += 1; ex['walk-mismatch'].append((fn, repr(e)[:100])); continue
        # parent links
        parents = {}
        def link(t):
            for c in t.get_children(): parents[c.get_id()] = t; link(c)
        link(top)
        # supp scope -> ast node
        for node, tab in sm.reads:
            stats['reads'] += 1
            if not hasattr(node, 'flow'):
                stats['noflow'] += 1; continue
            v = node.flow.names_at(np(node)).get(node.id)
            if v is None:
                stats['unresolved'] += 1; continue
            alts = v.alt_names if isinstance(v, MultiName) else [v]
            alts = [a for a in alts if not isinstance(a, UndefinedName)]
            # effective block: skip comprehension blocks
            t = tab
            name = node.id
            # resolve through transparent comprehension: if comp block has name local (target), owner = nearest non-comp ancestor
            def is_comp(t): return t.get_type() == 'function' and t.get_name() in ('listcomp','setcomp','genexpr','dictcomp')
            def find_owner(tt):
                # nearest enclosing real function that binds name as local/cell
                while True:
                    tt = parents.get(tt.get_id())
                    if tt is None or tt.get_type() == 'module': return None
                    if tt.get_type()=='function' and not is_comp(tt):
                        try:
                            sy = tt.lookup(name)
                            if sy.is_local() and not sy.is_free(): return tt
                        except KeyError: pass
            kind = None
            while True:
                try: sym = t.lookup(name)
                except KeyError: sym = None
                if t.get_type() == 'module': kind = ('global', None); break
                if sym is None: kind=('?',None); break
                if is_comp(t):
                    if sym.is_local() and not sym.is_free() and not sym.is_global():
                        tt = parents[t.get_id()]
                        while is_comp(tt): tt = parents[tt.get_id()]
                        kind = ('local', tt) if tt.get_type()=='function' else (('global',None) if tt.get_type()=='module' else ('classlocal', tt)); break
                    t = parents[t.get_id()]; continue
                if sym.is_global(): kind = ('global', None); break
                if t.get_type() == 'class':
                    if sym.is_local(): kind = ('classlocal', t); break
                    if sym.is_free():
                        o = find_owner(t); kind = ('free', o) if o else ('?', None); break
                    kind=('?',None); break
                if sym.is_free():
                    o = find_owner(t); kind = ('free', o) if o else ('?', None); break
                if sym.is_local(): kind = ('local', t); break
                kind=('?',None); break
            if kind[0] == 'classlocal':
                stats['skip-classlocal'] += 1; continue
            if kind[0] == '?':
                stats['skip-?'] += 1; continue
            for a in alts:
                sc = getattr(a, 'scope', None)
                if isinstance(a, RuntimeName) and sc is None: got = ('builtin', None)
                elif isinstance(sc, SourceScope): got = ('global', None)
                elif isinstance(sc, FuncScope): got = ('func', (sc.name, sc.node.lineno))
                elif isinstance(sc, ClassScope): got = ('class', sc.name)
                else: got = ('other', type(a).__name__)
                if kind[0] == 'global':
                    ok = got[0] in ('global', 'builtin')
                else:
                    owner = kind[1]
                    ok = got[0] == 'func' and got[1] == (owner.get_name(), owner.get_lineno())
                stats['alts'] += 1
                if not ok:
                    key = (kind[0], got[0])
                    stats[('BAD',) + key] += 1
                    if len(ex[key]) < 5: ex[key].append((fn, node.id, np(node), kind[1] and kind[1].get_name(), got))
    for k, v in sorted(stats.items(), key=str): print(k, v)
    for k, v in ex.items():
        print(k); [print('   ', x) for x in v]

if __name__ == '__main__':
    stdlib = sysconfig.get_paths()['stdlib']
    files = []
    for root, d, fs in os.walk(stdlib):
        if 'site-packages' in root: continue
        for f in fs:
            if f.endswith('.py'): files.append(os.path.join(root, f))
    files.sort()
    if len(sys.argv) > 1: files = sys.argv[1:]
    main(files)
