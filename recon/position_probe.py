import os, sys, collections, logging, re, sysconfig
logging.disable(logging.CRITICAL)
import warnings; warnings.simplefilter('ignore')
from supp.project import Project
from supp.util import Source
from supp.nast import extract_scope
from supp.name import AssignedName, ImportedName, ArgumentName
from supp.scope import FuncScope, ClassScope
stdlib = sysconfig.get_paths()['stdlib']
files = []
for root, d, fs in os.walk(stdlib):
    if 'site-packages' in root: continue
    for f in fs:
        if f.endswith('.py'): files.append(os.path.join(root, f))
files.sort()
P = Project(['/tmp/recon/proj'])
bad = collections.Counter(); ex = {}
tot = 0; nfiles = 0
for fn in files:
    try:
        src = open(fn, encoding='utf-8').read()
        s = Source(src, fn); s.tree
    except Exception: continue
    try:
        scope = extract_scope(s, P)
    except Exception as e:
        bad['EXTRACT ' + type(e).__name__] += 1; ex.setdefault('EXTRACT ' + type(e).__name__, (fn, str(e)[:80])); continue
    nfiles += 1
    lines = s.lines
    for flow, name in scope.all_names:
        if getattr(name, 'is_star', False): continue
        tot += 1
        l, c = name.declared_at
        kind = type(name).__name__
        try:
            line = lines[l-1]
        except IndexError:
            bad[kind, 'line-out'] += 1; continue
        if not line.isascii(): continue
        txt = line[c:c+len(name.name)]
        ok = txt == name.name and (c == 0 or not (line[c-1].isalnum() or line[c-1]=='_')) and (c+len(name.name) >= len(line) or not (line[c+len(name.name)].isalnum() or line[c+len(name.name)]=='_'))
        if kind == 'AssignedName' and line[c:c+6] == 'except':
            ok = True
        if not ok:
            bad[kind] += 1; ex.setdefault(kind, []); 
            if len(ex[kind]) < 6: ex[kind].append((fn.replace(stdlib, ''), name.name, (l, c), line.strip()[:70]))
print(nfiles, tot, bad)
for k, v in ex.items(): print(k); [print('   ', x) for x in (v if isinstance(v, list) else [v])]
