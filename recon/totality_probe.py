import os, sys, random, traceback, collections, logging
logging.disable(logging.CRITICAL)
from supp.project import Project
from supp.assistant import assist, location
from supp.linter import lint
import sysconfig
stdlib = sysconfig.get_paths()['stdlib']
files = []
for root, d, fs in os.walk(stdlib):
    if 'site-packages' in root or 'test' in root.split(os.sep): continue
    for f in fs:
        if f.endswith('.py'): files.append(os.path.join(root, f))
files.sort()
rnd = random.Random(1)
rnd.shuffle(files)
P = Project(['/tmp/recon/proj'])
buckets = collections.defaultdict(list)
def bucket(e, what, fn, pos):
    tb = traceback.extract_tb(e.__traceback__)
    fr = [f for f in tb if '/supp/' in f.filename]
    key = (what, type(e).__name__, fr[-1].filename.split('/')[-1] + ':' + str(fr[-1].lineno) if fr else '?', str(e)[:60] if not fr else '')
    buckets[key].append((fn, pos))
n = 0
sys.setrecursionlimit(3000)
for fn in files[:150]:
    try:
        src = open(fn, encoding='utf-8').read()
    except Exception:
        continue
    lines = src.splitlines()
    try:
        lint(P, src, fn)
    except SyntaxError: pass
    except RecursionError: print('REC lint', fn)
    except Exception as e:
        bucket(e, 'lint', fn, None)
    for _ in range(25):
        if not lines: break
        ln = rnd.randrange(len(lines)) + 1
        col = rnd.randint(0, len(lines[ln-1]))
        for what, fnc in (('assist', assist), ('location', location)):
            n += 1
            try:
                fnc(P, src, (ln, col), fn)
            except SyntaxError:
                pass
            except RecursionError: print('REC', what, fn, ln, col)
            except Exception as e:
                bucket(e, what, fn, (ln, col))
print('calls', n)
for k, v in sorted(buckets.items(), key=lambda kv: -len(kv[1])):
    print(len(v), k, v[0])
