import logging; logging.disable(logging.CRITICAL)
import sys
junk = [object() for _ in range(int(sys.argv[1]))]
from supp.project import Project
from supp.assistant import location
src = '''
if a:
    x = 1
elif b:
    x = 2
elif c:
    x = 3
else:
    x = 4
x
'''
print(location(Project(['/tmp/recon/proj']), src, (10, 1), 'f.py'))
