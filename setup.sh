#!/bin/bash
# Offline setup: make sure hypothesis is importable in /venv and atheris is available under /verif/.deps.
cd "$(dirname "$0")" || exit 1
PY=/venv/bin/python
"$PY" -c 'import hypothesis' 2>/dev/null || "$PY" -m pip install -q --no-index --find-links /opt/veriftools/wheels hypothesis
if [ ! -d .deps/atheris ]; then
    "$PY" -m pip install -q --no-index --find-links /opt/veriftools/wheels --target .deps atheris >/dev/null 2>&1 || echo "note: atheris not installed (byte-level tiers fall back to Hypothesis)"
fi
"$PY" -c 'import hypothesis; print("hypothesis", hypothesis.__version__)'
exit 0
