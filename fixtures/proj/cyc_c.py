from cyc_d import d_name as c_alias
c_own = 1
