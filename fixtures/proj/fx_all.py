"""Fixture module with an explicit __all__ (literal, then extended): a star import binds exactly the listed names."""
__all__ = ['pub_a', '_priv_b']
__all__ += ['pub_c']
__all__.append('pub_d')
__all__.extend(['_priv_e'])

pub_a = 1
_priv_b = 2
pub_c = 3
pub_d = 4
_priv_e = 5
hidden_f = 6
_hidden_g = 7
