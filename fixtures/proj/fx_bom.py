﻿"""Fixture module that starts with a UTF-8 byte order mark (valid for the interpreter)."""
bom_value = 1


class BomClass(object):
    battr = 2
