import cyc_e


class FromF(object):
    f_attr = cyc_e


f_own = 2
