"""Fixture module imported by generated programs."""
fa = 1
fb = 'two'


class FxClass(object):
    cattr = 1

    def meth(self):
        self.iattr = 2
        return self


def fx_func(x):
    return FxClass()


_private = 0
