s1 = 1
s2 = 2
a = 'from fx_star'
_hidden = 3
