import cyc_f
e_own = 1
e_other = cyc_f
