from cyc_b import *
ca = 1
