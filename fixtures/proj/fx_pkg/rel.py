from . import sub
from .sub import sa as rel_sa
rel_attr = sub.sb
