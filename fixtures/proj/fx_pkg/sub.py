sa = 1
sb = 2
