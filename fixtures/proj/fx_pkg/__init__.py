pkg_attr = 1
