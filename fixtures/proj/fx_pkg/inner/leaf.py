la = 1
lb = 2
