inner_attr = 1
