from cyc_c import c_alias as d_name
d_own = 2
