from cyc_a import *
cb = 2
