"""Names created only through a global statement executed at import time."""


def _init():
    global GLEVEL, gflag
    GLEVEL = 1
    gflag = True


_init()
gplain = 2
